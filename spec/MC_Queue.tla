------------------------------ MODULE MC_Queue ------------------------------
(* Bounded instances of QueueSpec for TLC. *)
EXTENDS QueueSpec
\* widths: zero-width alone is refused; zero-width next to narrow, byte-sized, straddling and 64-bit records
MCWidths == {<<8>>, <<3>>, <<0, 3>>, <<1, 12>>, <<0, 0>>, <<2, 2, 0>>, <<64, 1>>, <<0, 9, 0>>, <<5, 16>>}
MCWidthsSmall == {<<3>>, <<0, 3>>, <<0, 0>>, <<1, 12>>}

\* ---- whole files: every complete sequence of packets the environment can produce (for replay on the real reader)
RECURSIVE FilesFrom(_)
FilesFrom(e) == (IF AllDeliveredOf(e) THEN {<<>>} ELSE {})
                \cup UNION {{<<pkt>> \o f : f \in FilesFrom(EnvAfterOf(e, pkt))} : pkt \in NextPacketsOf(e)}
EnvFor(w, n, other) == [n |-> n, decl |-> n, rem |-> QTup(LAMBDA i : StreamBytes(n, w[i]), 1, Len(w)), other |-> other]
\* printed as one line per file: "QFILE " + JSON of [w, n, packets]
ExportWidths == {<<3>>, <<0, 3>>, <<1, 12>>, <<2, 2, 0>>, <<0, 9, 0>>, <<5, 16>>, <<8, 0>>, <<12, 0, 1>>, <<7, 7>>, <<33>>}
TotalBytes(w, n) == QSum(QTup(LAMBDA i : StreamBytes(n, w[i]), 1, Len(w)), 1)
=============================================================================
