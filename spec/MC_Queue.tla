------------------------------ MODULE MC_Queue ------------------------------
(* Bounded instances of QueueSpec for TLC. *)
EXTENDS QueueSpec
\* widths: zero-width alone is refused; zero-width next to narrow, byte-sized, straddling and 64-bit records
MCWidths == {<<8>>, <<3>>, <<0, 3>>, <<1, 12>>, <<0, 0>>, <<2, 2, 0>>, <<64, 1>>, <<0, 9, 0>>, <<5, 16>>}
MCWidthsSmall == {<<3>>, <<0, 3>>, <<0, 0>>, <<1, 12>>}
=============================================================================
