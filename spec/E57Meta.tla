------------------------------- MODULE E57Meta -------------------------------
(***************************************************************************)
(* Metadata part of the file-level specification: what the reader must     *)
(* report for the scene handed to the writer (C04), exact bounds and       *)
(* default limits (C14), and the E57 XML schema transcribed from the       *)
(* standard (C02: element names, types, nesting).                          *)
(***************************************************************************)
EXTENDS E57Spec

\* ------------------------------------------------------------ setters: last call wins
RECURSIVE LastSetFrom(_, _, _)
LastSetFrom(meta, f, i) == IF i = 0 THEN NoneV
                           ELSE IF meta[i][1] = f THEN meta[i][2] ELSE LastSetFrom(meta, f, i - 1)
LastSet(meta, f) == LastSetFrom(meta, f, Len(meta))
WasSet(meta, f) == \E i \in 1..Len(meta) : meta[i][1] = f
\* image setters take plain values
LastSetPlain(meta, f) == IF WasSet(meta, f) THEN SomeV(LastSet(meta, f)) ELSE NoneV

PcStringFields == <<"name", "description", "sensor_vendor", "sensor_model", "sensor_serial", "sensor_hw", "sensor_sw", "sensor_fw">>
PcFloatFields  == <<"temperature", "humidity", "pressure">>
PcOtherFields  == <<"transform", "acq_start", "acq_end", "original_guids">>
ImFields       == <<"name", "description", "pc_guid", "sensor_vendor", "sensor_model", "sensor_serial", "transform", "acquisition">>

\* ------------------------------------------------------------ IEEE-754 ordering on bit limbs (no NaN)
IsNegF64(l) == l[4] >= 32768
IsNaN64(l)  == ((l[4] % 32768) \div 16) = 2047 /\ ((l[4] % 16) # 0 \/ l[3] # 0 \/ l[2] # 0 \/ l[1] # 0)
NegZero64   == <<0, 0, 0, 32768>>
NormZero(l) == IF l = NegZero64 THEN F64Zero ELSE l
Not64(l)    == <<65535 - l[1], 65535 - l[2], 65535 - l[3], 65535 - l[4]>>
\* total order key: negative numbers reversed below the positives
FKey(l) == IF IsNegF64(l) THEN Not64(l) ELSE <<l[1], l[2], l[3], l[4] + 32768>>
FLe(a, b) == LeU64(FKey(NormZero(a)), FKey(NormZero(b)))

\* <<min, max>> of column col over points lo..hi by halving (ties: the later point wins, as in a left fold). The halves
\* are bound through singleton sets so that TLC evaluates each exactly once: operator arguments and LET definitions are
\* lazy, and a left fold with accumulator arguments builds a chain of suspended comparisons that costs far more than
\* linear time on 10^4..10^5 points.
RECURSIVE MinMaxBy(_, _, _, _, _)
MinMaxBy(pts, col, lo, hi, int) ==
    IF lo = hi THEN LET x == IF int THEN ValLimbs(pts[lo][col]) ELSE pts[lo][col] IN <<x, x>>
    ELSE LET mid == (lo + hi) \div 2
         \* (a NaN is no real value: it never replaces a bound, and a bound that is NaN -- only NaNs so far -- gives way)
         IN CHOOSE r \in { <<IF int THEN (IF LeS64(b[1], a[1]) THEN b[1] ELSE a[1])
                               ELSE IF IsNaN64(b[1]) THEN a[1] ELSE IF IsNaN64(a[1]) THEN b[1] ELSE IF FLe(b[1], a[1]) THEN b[1] ELSE a[1],
                               IF int THEN (IF LeS64(a[2], b[2]) THEN b[2] ELSE a[2])
                               ELSE IF IsNaN64(b[2]) THEN a[2] ELSE IF IsNaN64(a[2]) THEN b[2] ELSE IF FLe(a[2], b[2]) THEN b[2] ELSE a[2]>> :
                             a \in {MinMaxBy(pts, col, lo, mid, int)}, b \in {MinMaxBy(pts, col, mid + 1, hi, int)} } : TRUE

\* `reals` : per point, per record, the real value as f64 limbs (for coordinate records) -- provided
\* by the trace as a mechanical conversion (f32 -> f64 widening, integer * scale + offset)
RealBounds(reals, col) ==
    IF Len(reals) = 0 THEN <<NoneV, NoneV>>
    ELSE CHOOSE q \in { <<SomeV(r[1]), SomeV(r[2])>> : r \in {MinMaxBy(reals, col, 1, Len(reals), FALSE)} } : TRUE
IntBounds(pts, col) ==
    IF Len(pts) = 0 THEN <<NoneV, NoneV>>
    ELSE CHOOSE q \in { <<SomeV(r[1]), SomeV(r[2])>> : r \in {MinMaxBy(pts, col, 1, Len(pts), TRUE)} } : TRUE

ColOf(proto, n) == CHOOSE i \in 1..Len(proto) : IsStd(proto[i]) /\ proto[i].name = n
\* numeric equality of optional f64 limbs (-0 = +0)
FEqOpt(a, b) == (IsSome(a) = IsSome(b)) /\ (IsSome(a) => NormZero(a.some) = NormZero(b.some))

\* ------------------------------------------------------------ default limits (C14)
\* the declared range of a record type as limit values <<kind, limbs...>>; floats: only when declared
TypeLimit(r, which) ==
    LET o == IF which = "min" THEN r.min ELSE r.max
    IN IF IsSome(o) THEN SomeV(<<r.k, o.some[1], o.some[2], o.some[3], o.some[4]>>) ELSE NoneV
LimitComplete2(mn, mx) == IsSome(mn) /\ IsSome(mx)

\* ------------------------------------------------------------ the E57 XML schema (ASTM E2807 tables)
\* parent element -> allowed standard children <<name, type>>
S(name, ty) == <<name, ty>>
DateTimeKids == {S("dateTimeValue", "Float"), S("isAtomicClockReferenced", "Integer")}
PoseKids == {S("rotation", "Structure"), S("translation", "Structure")}
SchemaKids(parent) ==
    CASE parent = "e57Root" -> {S("formatName", "String"), S("guid", "String"), S("versionMajor", "Integer"), S("versionMinor", "Integer"),
                                S("e57LibraryVersion", "String"), S("coordinateMetadata", "String"), S("creationDateTime", "Structure"),
                                S("data3D", "Vector"), S("images2D", "Vector")}
      [] parent = "data3D" -> {S("vectorChild", "Structure")}
      [] parent = "images2D" -> {S("vectorChild", "Structure")}
      [] parent = "data3D/vectorChild" ->
            {S("guid", "String"), S("points", "CompressedVector"), S("pose", "Structure"), S("originalGuids", "Vector"),
             S("pointGroupingSchemes", "Structure"), S("name", "String"), S("description", "String"),
             S("cartesianBounds", "Structure"), S("sphericalBounds", "Structure"), S("indexBounds", "Structure"),
             S("intensityLimits", "Structure"), S("colorLimits", "Structure"),
             S("acquisitionStart", "Structure"), S("acquisitionEnd", "Structure"),
             S("sensorVendor", "String"), S("sensorModel", "String"), S("sensorSerialNumber", "String"),
             S("sensorHardwareVersion", "String"), S("sensorSoftwareVersion", "String"), S("sensorFirmwareVersion", "String"),
             S("temperature", "Float"), S("relativeHumidity", "Float"), S("atmosphericPressure", "Float")}
      [] parent = "images2D/vectorChild" ->
            {S("guid", "String"), S("visualReferenceRepresentation", "Structure"), S("pinholeRepresentation", "Structure"),
             S("sphericalRepresentation", "Structure"), S("cylindricalRepresentation", "Structure"), S("pose", "Structure"),
             S("associatedData3DGuid", "String"), S("name", "String"), S("description", "String"),
             S("acquisitionDateTime", "Structure"), S("sensorVendor", "String"), S("sensorModel", "String"), S("sensorSerialNumber", "String")}
      [] parent \in {"creationDateTime", "acquisitionStart", "acquisitionEnd", "acquisitionDateTime"} -> DateTimeKids
      [] parent = "pose" -> PoseKids
      [] parent = "rotation" -> {S("w", "Float"), S("x", "Float"), S("y", "Float"), S("z", "Float")}
      [] parent = "translation" -> {S("x", "Float"), S("y", "Float"), S("z", "Float")}
      [] parent = "originalGuids" -> {S("vectorChild", "String")}
      [] parent = "cartesianBounds" -> {S("xMinimum", "Float"), S("xMaximum", "Float"), S("yMinimum", "Float"), S("yMaximum", "Float"),
                                        S("zMinimum", "Float"), S("zMaximum", "Float")}
      [] parent = "sphericalBounds" -> {S("rangeMinimum", "Float"), S("rangeMaximum", "Float"), S("elevationMinimum", "Float"),
                                        S("elevationMaximum", "Float"), S("azimuthStart", "Float"), S("azimuthEnd", "Float")}
      [] parent = "indexBounds" -> {S("rowMinimum", "Integer"), S("rowMaximum", "Integer"), S("columnMinimum", "Integer"),
                                    S("columnMaximum", "Integer"), S("returnMinimum", "Integer"), S("returnMaximum", "Integer")}
      [] parent = "intensityLimits" -> {S("intensityMinimum", "*"), S("intensityMaximum", "*")}
      [] parent = "colorLimits" -> {S("colorRedMinimum", "*"), S("colorRedMaximum", "*"), S("colorGreenMinimum", "*"),
                                    S("colorGreenMaximum", "*"), S("colorBlueMinimum", "*"), S("colorBlueMaximum", "*")}
      [] parent = "points" -> {S("prototype", "Structure"), S("codecs", "Vector")}
      [] parent = "visualReferenceRepresentation" ->
            {S("jpegImage", "Blob"), S("pngImage", "Blob"), S("imageMask", "Blob"), S("imageWidth", "Integer"), S("imageHeight", "Integer")}
      [] parent = "pinholeRepresentation" ->
            {S("jpegImage", "Blob"), S("pngImage", "Blob"), S("imageMask", "Blob"), S("imageWidth", "Integer"), S("imageHeight", "Integer"),
             S("focalLength", "Float"), S("pixelWidth", "Float"), S("pixelHeight", "Float"), S("principalPointX", "Float"), S("principalPointY", "Float")}
      [] parent = "sphericalRepresentation" ->
            {S("jpegImage", "Blob"), S("pngImage", "Blob"), S("imageMask", "Blob"), S("imageWidth", "Integer"), S("imageHeight", "Integer"),
             S("pixelWidth", "Float"), S("pixelHeight", "Float")}
      [] parent = "cylindricalRepresentation" ->
            {S("jpegImage", "Blob"), S("pngImage", "Blob"), S("imageMask", "Blob"), S("imageWidth", "Integer"), S("imageHeight", "Integer"),
             S("radius", "Float"), S("principalPointY", "Float"), S("pixelWidth", "Float"), S("pixelHeight", "Float")}
      [] OTHER -> {}
NumericTypes == {"Integer", "ScaledInteger", "Float"}
\* schema key of an element: vectorChild depends on its parent
SchemaKey(parentKey, n) == IF n.name = "vectorChild" /\ parentKey \in {"data3D", "images2D"} THEN parentKey \o "/vectorChild" ELSE n.name
LeafTypes == {"String", "Integer", "Float", "ScaledInteger", "Blob"}

\* every element of the E57 namespace (outside prototypes) is allowed where it stands and carries the
\* type the standard gives it; elements of other namespaces are extensions and are skipped
RECURSIVE SchemaOkAt(_, _)
KidOk(parentKey, k) ==
    \/ k.ns # E57NS
    \/ \E e \in SchemaKids(parentKey) :
          /\ e[1] = k.name
          /\ (e[2] = "*" /\ AttrS(k, "type") \in NumericTypes) \/ e[2] = AttrS(k, "type")
          /\ (AttrS(k, "type") \in LeafTypes \/ k.name = "prototype") \/ SchemaOkAt(SchemaKey(parentKey, k), k)
SchemaOkAt(parentKey, n) == \A i \in 1..Len(n.kids) : KidOk(parentKey, n.kids[i])
k0(s) == s[1]
\* first offending element (for the diagnosis), "" if none
RECURSIVE SchemaBadAt(_, _)
SchemaBadAt(parentKey, n) ==
    LET bad == SelectSeq(n.kids, LAMBDA k : ~KidOk(parentKey, k))
    IN IF bad = <<>> THEN ""
       ELSE IF k0(bad).ns = E57NS /\ (\E e \in SchemaKids(parentKey) : e[1] = k0(bad).name /\ (e[2] = AttrS(k0(bad), "type") \/ e[2] = "*"))
            THEN SchemaBadAt(SchemaKey(parentKey, k0(bad)), k0(bad))
            ELSE parentKey \o "/" \o k0(bad).name
=============================================================================
