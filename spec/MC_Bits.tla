------------------------------- MODULE MC_Bits -------------------------------
(* Bounded instance of BitBuf: all operation sequences up to MaxDepth over boundary widths and   *)
(* bit patterns, invariants WriteBufferIsPack / ReadBufferIsTail, every edge exported for replay *)
(* on the real ByteStreamWriteBuffer / ByteStreamReadBuffer.                                     *)
EXTENDS BitBuf, TLC, Json
CONSTANTS MaxDepth, Side, Export      \* Side = "w" (write buffer) or "r" (read buffer)
VARIABLE hist

Widths == {0, 1, 3, 7, 8, 9, 16, 17, 31, 32, 33, 63, 64}
Ones == <<65535, 65535, 65535, 65535>>
Alt  == <<21845, 43690, 21845, 43690>>
Pattern(k, n) == MaskL(IF k = 0 THEN Ones ELSE IF k = 1 THEN Alt ELSE <<4660 + k, 22136, 39612, 57072>>, n)
Chunk(k, len) == SubSeq([i \in 1..64 |-> (i * 37 + k * 11) % 256], 1, len)

Rec(a) == hist' = Append(hist, a)
MCInit == BInit /\ hist = <<>>
MCNext ==
    /\ Len(hist) < MaxDepth
    /\ IF Side = "w"
       THEN \/ \E n \in Widths : \E k \in 0..2 : W_AddBits(Pattern(k, n), n) /\ Rec([op |-> "add", n |-> n, v |-> Pattern(k, n)])
            \/ W_GetFull /\ Rec([op |-> "full"])
            \/ W_GetAll /\ Rec([op |-> "all"])
       ELSE \/ \E len \in {0, 1, 2, 3, 8, 9} : R_Append(Chunk(Len(hist), len)) /\ Rec([op |-> "append", b |-> Chunk(Len(hist), len)])
            \/ \E n \in Widths : R_Extract(n) /\ Rec([op |-> "extract", n |-> n])
MCSpec == MCInit /\ [][MCNext]_<<bvars, hist>>
MCView == <<wb, wbits, wout, rb, rbits, rpos, Len(hist)>>
Obs == IF Side = "w" THEN [full |-> FullBytes', all |-> Len(wb'.bytes), bytes |-> wout' \o wb'.bytes]
       ELSE [avail |-> Len(rb'.bytes) * 8 - rb'.off]
Edge == IF Export THEN PrintT("EDGE " \o ToJson([side |-> Side, h |-> hist', res |-> bres', obs |-> Obs])) ELSE TRUE
=============================================================================
