----------------------------- MODULE LifecycleSpec -----------------------------
(***************************************************************************)
(* Call-order protocol of the writer objects (C10, C01, C16):              *)
(*   E57Writer  W   -- add_pointcloud / add_image lend W to ONE child      *)
(*                     writer at a time (Rust borrow), finalize commits    *)
(*                     the list of finished objects                         *)
(*   child writer   -- PointCloudWriter / ImageWriter: finalize() puts the *)
(*                     object on W's list; the object stays alive until    *)
(*                     it is dropped                                        *)
(* What a reader sees is `committed`: the list written by the last         *)
(* finalize that completed, "none" before, "broken" when a finalize wrote  *)
(* over earlier sections.                                                   *)
(*                                                                         *)
(* `Variant`:                                                              *)
(*   "asbuilt"       a finished child refuses a second finalize; W refuses *)
(*                   to finalize again after a finalize that failed while  *)
(*                   writing                                               *)
(*   "add_again"     a second finalize of a child lists the object once    *)
(*                   more (the code before D-32)                           *)
(*   "retry_writes"  W finalizes again after a failed finalize, from the   *)
(*                   position the failure left behind (before D-35)        *)
(* TLC: the properties hold for "asbuilt"; each other variant has a        *)
(* counterexample.                                                         *)
(***************************************************************************)
EXTENDS Naturals, Sequences, FiniteSets

CONSTANTS MaxObjects, Variant

VARIABLES w,          \* "open" | "failed"
          listed,     \* ids of the objects W will describe, in order
          child,      \* [id, st]: st = "none" | "open" | "spent"
          committed,  \* [k, ids]: k = "none" | "broken" | "list" (TLC cannot compare a string with a sequence)
          nextId,
          last        \* result of the last top-level finalize: "none" | "ok" | "err"

vars == <<w, listed, child, committed, nextId, last>>
NoChild == [id |-> 0, st |-> "none"]
Com(k, ids) == [k |-> k, ids |-> ids]
Init == w = "open" /\ listed = <<>> /\ child = NoChild /\ committed = Com("none", <<>>) /\ nextId = 1 /\ last = "none"

NewChild == /\ child.st = "none" /\ nextId <= MaxObjects
            /\ child' = [id |-> nextId, st |-> "open"] /\ nextId' = nextId + 1
            /\ UNCHANGED <<w, listed, committed, last>>
ChildFinalize == /\ child.st = "open"
                 /\ listed' = Append(listed, child.id) /\ child' = [child EXCEPT !.st = "spent"]
                 /\ UNCHANGED <<w, committed, nextId, last>>
\* finalize() on a child that is already finished
ChildFinalizeAgain == /\ child.st = "spent"
                      /\ listed' = IF Variant = "add_again" THEN Append(listed, child.id) ELSE listed
                      /\ UNCHANGED <<w, child, committed, nextId, last>>
DropChild == child.st # "none" /\ child' = NoChild /\ UNCHANGED <<w, listed, committed, nextId, last>>

\* top-level finalize on a healthy writer: completes, or fails while writing (the old commit may or may not survive, C15)
WFinalizeOk == /\ child.st = "none" /\ w = "open"
               /\ committed' = Com("list", listed) /\ last' = "ok"
               /\ UNCHANGED <<w, listed, child, nextId>>
WFinalizeFail == /\ child.st = "none" /\ w = "open"
                 /\ w' = "failed" /\ last' = "err"
                 /\ committed' \in {committed, Com("broken", <<>>)}
                 /\ UNCHANGED <<listed, child, nextId>>
\* top-level finalize after such a failure
WFinalizeRetry == /\ child.st = "none" /\ w = "failed"
                  /\ IF Variant = "retry_writes"
                     THEN committed' = Com("broken", <<>>) /\ last' = "ok" /\ w' = "open"     \* XML written from wherever the failure left the cursor
                     ELSE committed' = committed /\ last' = "err" /\ w' = w
                  /\ UNCHANGED <<listed, child, nextId>>
Next == NewChild \/ ChildFinalize \/ ChildFinalizeAgain \/ DropChild \/ WFinalizeOk \/ WFinalizeFail \/ WFinalizeRetry
Spec == Init /\ [][Next]_vars

IsSeq(x) == x.k = "list"
NoDup(s) == Cardinality({s[i] : i \in 1..Len(s)}) = Len(s)
\* every finished object is listed exactly once
ListedOnce == NoDup(listed)
\* a reader never sees an object twice, and only objects that were finished
CommittedSane == IsSeq(committed) => (NoDup(committed.ids) /\ Len(committed.ids) <= Len(listed) /\ SubSeq(listed, 1, Len(committed.ids)) = committed.ids)
\* whenever the last top-level finalize reported Ok, the device holds the complete file of that moment
OkMeansComplete == last = "ok" => (IsSeq(committed) /\ NoDup(committed.ids))
=============================================================================
