--------------------------- MODULE RefinalizeSpec ---------------------------
(***************************************************************************)
(* Design-level model of finalizing a file a second time (C15): after the  *)
(* first finalize the device holds a complete file, version 1.  The caller *)
(* changes metadata and calls finalize again; at every crash point the     *)
(* device must hold version 1 or version 2, never a mixture.               *)
(*                                                                         *)
(* A page is what the reader can tell about it:                            *)
(*   <<"data">>      sealed section page (same in both versions)           *)
(*   <<"xml", v>>    sealed page of the XML text of version v              *)
(*   <<"hdr", v>>    sealed final header designating the XML of version v  *)
(*   <<"torn">>      partly written page (checksum invalid)                *)
(*   <<"none">>      never written                                         *)
(*                                                                         *)
(* `Mode`:                                                                 *)
(*   "append"    as built: the new XML goes behind the old one on fresh    *)
(*               pages, then the header is replaced (one page write)       *)
(*   "in_place"  the new XML overwrites the old XML pages, the header      *)
(*               designates the same pages as before (seeded change C15-D) *)
(*   "in_place_header_first"  like in_place but the header is invalidated  *)
(*               (placeholder) before the XML pages are rewritten: safe    *)
(*               against mixtures                                          *)
(* TLC checks NeverMixed (C15): it holds for "append" and for             *)
(* "in_place_header_first" and is violated by "in_place".  NeverLost is    *)
(* NOT part of C15 and holds for none of them: the header is one page and  *)
(* a torn write of it leaves no acceptable file, also as built (recorded   *)
(* as an observation in DESIGN.md, nothing claims it).                     *)
(***************************************************************************)
EXTENDS Naturals, Sequences, FiniteSets

CONSTANTS NData,   \* section pages 1..NData
          NXml,    \* pages of each XML text
          Mode

X1 == (NData + 1)..(NData + NXml)                 \* pages of XML version 1
X2 == IF Mode = "append" THEN (NData + NXml + 1)..(NData + 2 * NXml) ELSE X1
Pages == 0..(NData + 2 * NXml)

VARIABLES dev, prog, crashed
vars == <<dev, prog, crashed>>

\* the device after the first finalize
Dev1 == [p \in Pages |-> IF p = 0 THEN <<"hdr", 1>> ELSE IF p \in 1..NData THEN <<"data">> ELSE IF p \in X1 THEN <<"xml", 1>> ELSE <<"none">>]

RECURSIVE XmlWrites(_, _)
XmlWrites(pages, v) == IF pages = {} THEN <<>>
                       ELSE LET p == CHOOSE q \in pages : \A r \in pages : q <= r
                            IN <<<<p, <<"xml", v>>>>>> \o XmlWrites(pages \ {p}, v)
SecondFinalize ==
    IF Mode = "in_place_header_first"
    THEN <<<<0, <<"hdr", 0>>>>>> \o XmlWrites(X2, 2) \o <<<<0, <<"hdr", 2>>>>>>
    ELSE XmlWrites(X2, 2) \o <<<<0, <<"hdr", 2>>>>>>

Init == dev = Dev1 /\ prog = SecondFinalize /\ crashed = FALSE
Write == /\ ~crashed /\ prog # <<>>
         /\ dev' = [dev EXCEPT ![Head(prog)[1]] = Head(prog)[2]]
         /\ prog' = Tail(prog) /\ UNCHANGED crashed
CrashBetween == ~crashed /\ crashed' = TRUE /\ UNCHANGED <<dev, prog>>
CrashTorn == /\ ~crashed /\ prog # <<>>
             /\ dev' = [dev EXCEPT ![Head(prog)[1]] = <<"torn">>]
             /\ crashed' = TRUE /\ UNCHANGED prog
Next == Write \/ CrashBetween \/ CrashTorn
Spec == Init /\ [][Next]_vars

\* the pages a header designates; with in-place rewriting both versions occupy the same pages, so a
\* header of version 1 and one of version 2 are the same bytes
Designated(v) == IF v = 1 THEN X1 ELSE X2
HeaderVersion == IF dev[0][1] = "hdr" /\ dev[0][2] \in {1, 2} THEN dev[0][2] ELSE 0
Accepted == HeaderVersion # 0 /\ \A p \in Designated(HeaderVersion) : dev[p][1] = "xml"
\* what the reader then parses: the versions of the designated pages
VersionsRead == {dev[p][2] : p \in Designated(HeaderVersion)}
NeverMixed == Accepted => Cardinality(VersionsRead) = 1
\* a complete file stays readable until the next one is complete
NeverLost == crashed => Accepted
=============================================================================
