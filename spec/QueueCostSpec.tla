---------------------------- MODULE QueueCostSpec ----------------------------
(***************************************************************************)
(* Cost of reading one compressed-vector section of an UNTRUSTED file      *)
(* (C09: every single step of an iterator uses time bounded by a fixed     *)
(* multiple of the input size).                                            *)
(*                                                                         *)
(* Unlike QueueSpec, whose environment only produces well-formed sections, *)
(* the environment here may put ANY stream sizes into a data packet -- in  *)
(* particular bytes into the stream of a zero-width record, which a        *)
(* well-formed file never has -- and never needs to complete a point.      *)
(* One next() of an iterator is the loop "advance while no point is        *)
(* available"; its cost is the number of bytes the advances move           *)
(* (QueueLayer: q.work per advance, q.moved in total).                     *)
(*                                                                         *)
(* `Variant`:                                                              *)
(*   "asbuilt"       stream bytes of zero-width records are discarded      *)
(*   "buffer_zero"   they are appended like all others and never consumed  *)
(*                   (the code before the repair D-29): every advance      *)
(*                   moves everything received so far once more            *)
(* TLC shows WorkLinear and HeldBound for "asbuilt" and a counterexample   *)
(* to both for "buffer_zero".                                              *)
(***************************************************************************)
EXTENDS QueueLayer

CONSTANTS Variant, CWidths, MaxSize, MaxPackets

VARIABLES q,      \* queue reader (QueueLayer)
          call    \* [moved, fed] of the next() in progress: bytes moved and stream bytes received by its advances

cvars == <<q, call>>

RECURSIVE CSizes(_, _)
CSizes(n, i) == IF i > n THEN {<<>>} ELSE {<<c>> \o t : c \in 0..MaxSize, t \in CSizes(n, i + 1)}

Buffered(w) == QTup(LAMBDA i : IF Variant = "buffer_zero" THEN TRUE ELSE w[i] # 0, 1, Len(w))

Init == \E w \in CWidths : QNewOk(w) /\ q = QNew(w) /\ call = [moved |-> 0, fed |-> 0, adv |-> 0]

\* the refill loop of next(): one more packet while no point is complete
C_Advance == /\ q.seen < MaxPackets /\ QAvail(q) < 1
             /\ \E s \in CSizes(Len(q.w), 1) :
                  /\ q' = QAdvanceDataB(q, s, QInf, Buffered(q.w))
                  /\ call' = [moved |-> call.moved + q'.work, fed |-> call.fed + QSum(s, 1), adv |-> call.adv + 1]
C_Other   == /\ q.seen < MaxPackets /\ QAvail(q) < 1
             /\ q' = QAdvanceOther(q) /\ call' = [call EXCEPT !.adv = @ + 1]
\* next() returns a point; the following call starts with fresh counters
C_Yield   == /\ QAvail(q) >= 1
             /\ q' = QPop(q) /\ call' = [moved |-> 0, fed |-> 0, adv |-> 0]

Next == C_Advance \/ C_Other \/ C_Yield
Spec == Init /\ [][Next]_cvars

\* what the byte-stream buffers hold: at most the incomplete value of every record that occupies bits
Held == QSum(QTup(LAMBDA i : QHeldBytes(q.bits[i]), 1, Len(q.w)), 1)
\* (an incomplete value of a w-bit record has at most w - 1 bits, which lie in at most (w + 6) \div 8 <= 8 bytes)
Slack == QSum(QTup(LAMBDA i : IF q.w[i] = 0 THEN 0 ELSE (q.w[i] + 6) \div 8, 1, Len(q.w)), 1)
HeldBound == Held <= Slack
\* one call: every received byte is moved once, plus the incomplete values once per packet
WorkLinear == call.moved <= call.fed + Slack * call.adv
\* the whole section likewise
TotalLinear == q.moved <= q.bytes + Slack * q.seen
\* hence the bound used on traces: Slack <= 8 n, a data packet has at least 6 + 2 n bytes, so moved <= 5 x section size
SlackSmall == Slack <= 8 * Len(q.w)
CWellFormed == \A i \in 1..Len(q.w) : q.w[i] # 0 => q.bits[i] < q.w[i]
=============================================================================
