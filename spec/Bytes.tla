-------------------------------- MODULE Bytes --------------------------------
(***************************************************************************)
(* Byte-sequence and 64-bit helpers shared by all modules.                 *)
(* Byte strings are TLA+ sequences of 0..255 manipulated ONLY with the     *)
(* eager tuple operators SubSeq / \o / Len (DESIGN 9.3).                    *)
(* 64-bit quantities are 4 limbs of 16 bits, least significant first,      *)
(* two's complement ("L64").                                                *)
(***************************************************************************)
EXTENDS Naturals, Integers, Sequences

MinN(a, b) == IF a < b THEN a ELSE b
MaxN(a, b) == IF a > b THEN a ELSE b

Zero1K == [i \in 1..1024 |-> 0]
RECURSIVE ZerosN(_)
ZerosN(n) == IF n <= 1024 THEN SubSeq(Zero1K, 1, n) ELSE Zero1K \o ZerosN(n - 1024)

\* overwrite/extend: bytes placed at 0-based position pos of d (zero fill if pos > Len(d))
Over(d, pos, bytes) ==
    IF Len(bytes) = 0 /\ pos <= Len(d) THEN d
    ELSE IF Len(d) < pos THEN d \o ZerosN(pos - Len(d)) \o bytes
    ELSE SubSeq(d, 1, pos) \o bytes \o SubSeq(d, pos + Len(bytes) + 1, Len(d))

\* 0-based slice [from, from+n) ; caller guarantees it is inside
Slice(d, from, n) == SubSeq(d, from + 1, from + n)

\* slice that zero-fills what lies beyond the end of d
SlicePad(d, from, n) ==
    LET have == IF Len(d) > from THEN MinN(n, Len(d) - from) ELSE 0
    IN SubSeq(d, from + 1, from + have) \o ZerosN(n - have)

\* little-endian field readers on a byte sequence, 0-based position
U8(d, pos)  == d[pos + 1]
U16(d, pos) == d[pos + 1] + 256 * d[pos + 2]
\* value of a u32 field if it is < 2^31, else -1
U31(d, pos) == IF d[pos + 4] >= 128 THEN -1
               ELSE d[pos + 1] + 256 * d[pos + 2] + 65536 * d[pos + 3] + 16777216 * d[pos + 4]
\* u64 field as limbs
L64At(d, pos) == <<U16(d, pos), U16(d, pos + 2), U16(d, pos + 4), U16(d, pos + 6)>>
\* limbs -> natural if < 2^31 else -1
L64ToNat(l) == IF l[3] # 0 \/ l[4] # 0 \/ l[2] >= 32768 THEN -1 ELSE l[1] + 65536 * l[2]
U64Small(d, pos) == L64ToNat(L64At(d, pos))
NatToL64(n) == <<n % 65536, n \div 65536, 0, 0>>
L64Bytes(l) == <<l[1] % 256, l[1] \div 256, l[2] % 256, l[2] \div 256,
                 l[3] % 256, l[3] \div 256, l[4] % 256, l[4] \div 256>>
U16Bytes(n) == <<n % 256, n \div 256>>
U32Bytes(n) == <<n % 256, (n \div 256) % 256, (n \div 65536) % 256, n \div 16777216>>

\* two's complement subtraction a - b (mod 2^64)
RECURSIVE SubL(_, _, _, _)
SubL(a, b, i, borrow) ==
    IF i > 4 THEN <<>>
    ELSE LET d == a[i] - b[i] - borrow
         IN IF d < 0 THEN <<d + 65536>> \o SubL(a, b, i + 1, 1)
                     ELSE <<d>> \o SubL(a, b, i + 1, 0)
Sub64(a, b) == SubL(a, b, 1, 0)

RECURSIVE AddL(_, _, _, _)
AddL(a, b, i, carry) ==
    IF i > 4 THEN <<>>
    ELSE LET s == a[i] + b[i] + carry
         IN IF s >= 65536 THEN <<s - 65536>> \o AddL(a, b, i + 1, 1)
                          ELSE <<s>> \o AddL(a, b, i + 1, 0)
Add64(a, b) == AddL(a, b, 1, 0)

\* unsigned compare  a <= b
LeU64(a, b) ==
    IF a[4] # b[4] THEN a[4] < b[4]
    ELSE IF a[3] # b[3] THEN a[3] < b[3]
    ELSE IF a[2] # b[2] THEN a[2] < b[2]
    ELSE a[1] <= b[1]
\* signed compare a <= b (two's complement): flip the sign bit, compare unsigned
Flip(a) == <<a[1], a[2], a[3], (a[4] + 32768) % 65536>>
LeS64(a, b) == LeU64(Flip(a), Flip(b))

RECURSIVE BitLen16(_)
BitLen16(x) == IF x = 0 THEN 0 ELSE 1 + BitLen16(x \div 2)
\* number of bits needed for the unsigned value l  (0 for 0, 64 for >= 2^63)
BitLen(l) == IF l[4] # 0 THEN 48 + BitLen16(l[4])
             ELSE IF l[3] # 0 THEN 32 + BitLen16(l[3])
             ELSE IF l[2] # 0 THEN 16 + BitLen16(l[2])
             ELSE BitLen16(l[1])

Pow2(n) == 2^n     \* n <= 30

\* keep the w low bits of l
MaskL(l, w) == [i \in 1..4 |->
                  LET lo == (i - 1) * 16
                  IN IF w >= lo + 16 THEN l[i]
                     ELSE IF w <= lo THEN 0
                     ELSE l[i] % Pow2(w - lo)]

ASSUME Sub64(<<0, 0, 0, 0>>, <<1, 0, 0, 0>>) = <<65535, 65535, 65535, 65535>>
ASSUME Add64(<<65535, 65535, 65535, 65535>>, <<1, 0, 0, 0>>) = <<0, 0, 0, 0>>
ASSUME BitLen(<<0, 0, 0, 0>>) = 0 /\ BitLen(<<255, 0, 0, 0>>) = 8 /\ BitLen(<<0, 1, 0, 0>>) = 17
ASSUME BitLen(<<65535, 65535, 65535, 65535>>) = 64
ASSUME LeS64(<<65535, 65535, 65535, 65535>>, <<0, 0, 0, 0>>)      \* -1 <= 0
ASSUME ~LeS64(<<0, 0, 0, 0>>, <<65535, 65535, 65535, 65535>>)
ASSUME Over(<<1, 2, 3>>, 1, <<9>>) = <<1, 9, 3>> /\ Over(<<1>>, 3, <<7>>) = <<1, 0, 0, 7>>
ASSUME Over(<<1, 2, 3>>, 2, <<8, 9>>) = <<1, 2, 8, 9>>
=============================================================================
