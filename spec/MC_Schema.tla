------------------------------ MODULE MC_Schema ------------------------------
(* Prints the transcribed E57 XML schema (E57Meta.SchemaKids) as JSON so that generators *)
(* (foreign-element insertions of C18, structural mutations of C08) use the table of the   *)
(* specification instead of a copy.                                                        *)
EXTENDS E57Meta, TLC, Json
Keys == <<"e57Root", "data3D", "images2D", "data3D/vectorChild", "images2D/vectorChild", "creationDateTime", "acquisitionStart",
          "acquisitionEnd", "acquisitionDateTime", "pose", "rotation", "translation", "originalGuids", "cartesianBounds", "sphericalBounds",
          "indexBounds", "intensityLimits", "colorLimits", "points", "visualReferenceRepresentation", "pinholeRepresentation",
          "sphericalRepresentation", "cylindricalRepresentation">>
SchemaTable == [i \in 1..Len(Keys) |-> [key |-> Keys[i], kids |-> SetToSeq(SchemaKids(Keys[i]))]]
ASSUME PrintT("SCHEMA " \o ToJson(SchemaTable))
VARIABLE x
Init == x = 0
Next == x' = x
=============================================================================
