------------------------------ MODULE Trace_Page ------------------------------
(***************************************************************************)
(* Trace validation of recorded PagedWriter / PagedReader executions       *)
(* against PageSpec, at the real constants.  Every event carries arguments *)
(* and results; device snapshots at flush points are compared byte for     *)
(* byte (checksums included) and against the ghost logical stream.         *)
(***************************************************************************)
EXTENDS PageSpec, TraceBase

TInit == PInit /\ l = 1 /\ TLCSet(1, <<0, "none">>)

T_Reset == /\ IsEv("reset")
           /\ ws' = WInit /\ lg' = <<>> /\ wfail' = FALSE /\ fp' = FALSE
           /\ img' = <<>> /\ rs' = RInit /\ res' = Ok(0)

ResIs == Chk(res' = Rec[l].res, "P:result")

\* device snapshot at a flush point: the real device must be the paged image of lg
SnapOk == /\ Chk(Len(Rec[l].dev) % PAGE = 0, "P:whole-pages")
          /\ Chk(InvFlushPoint(Rec[l].dev, lg'), "P:payload-equals-logical-stream")
          /\ Chk(ws'[1] = Rec[l].dev, "S:device-bytes")

T_WriteAll == IsEv("w_write_all") /\ W_WriteAll(Rec[l].b) /\ ResIs
T_Write1   == /\ IsEv("w_write1")
              /\ Chk(~IsErr(Rec[l].res), "P:result")
              /\ W_Write1(Rec[l].b)
              /\ Chk(res' = Rec[l].res, "S:write-count")
T_Flush    == IsEv("w_flush") /\ W_Flush /\ ResIs /\ SnapOk
\* flush of a device too large to snapshot (traces of the repository's own tests)
T_FlushNoSnap == IsEv("w_flush_nosnap") /\ W_Flush /\ ResIs
\* seek and size are flush points of the CURRENT implementation only; the property fixes the
\* device content at flush/drop, so no snapshot is compared here (a lazily flushing seek is fine)
T_Seek     == IsEv("w_seek") /\ W_Seek(Rec[l].pos) /\ ResIs
T_Pos      == IsEv("w_pos")   /\ W_Pos   /\ ResIs
T_Size     == IsEv("w_size")  /\ W_Size  /\ ResIs
T_Align    == IsEv("w_align") /\ W_Align /\ ResIs

T_ROpen == IsEv("r_open") /\ R_Open(Rec[l].img) /\ ResIs
T_RSeek == IsEv("r_seek") /\ R_Seek(Rec[l].off) /\ ResIs
T_RRead == /\ IsEv("r_read") /\ R_Read(Rec[l].n)
           /\ Chk(IsErr(res') = IsErr(Rec[l].res), "P:read-verdict")
           /\ ~IsErr(res') =>
                /\ Chk(Len(Rec[l].res.ok) = Len(res'.ok), "S:read-count")
                /\ Chk(Rec[l].res.ok = res'.ok, "P:read-bytes")
T_RAlign == IsEv("r_align") /\ R_Align /\ ResIs

TNext == \/ T_Reset \/ T_WriteAll \/ T_Write1 \/ T_Flush \/ T_FlushNoSnap \/ T_Seek \/ T_Pos \/ T_Size \/ T_Align
         \/ T_ROpen \/ T_RSeek \/ T_RRead \/ T_RAlign

TSpec == TInit /\ [][TNext]_<<pvars, l>>
=============================================================================
