------------------------------ MODULE Trace_C17 ------------------------------
(***************************************************************************)
(* C17 at the file level: on one open reader every read operation returns  *)
(* what it returns on a freshly opened reader (same data or both fail),    *)
(* whatever sequence of operations -- complete, partly consumed, failed -- *)
(* ran before.  Each event is one operation sequence on one reader with    *)
(* the comparison class of every operation.  The mechanism behind it       *)
(* (absolute seeks + coherent page cache) is PropFresh in MC_PageR.        *)
(***************************************************************************)
EXTENDS TraceBase

VARIABLES nseq, nfail
vars == <<nseq, nfail>>
E == Rec[l]
TInit == nseq = 0 /\ nfail = 0 /\ l = 1 /\ TLCSet(1, <<0, "none">>)
T_Reset == IsEv("reset") /\ UNCHANGED vars
T_Seq ==
    /\ IsEv("c17")
    /\ ChkP(\A i \in 1..Len(E.classes) : E.classes[i] # "panic", {"C17", "C08"}, "read-panicked")
    /\ ChkP(\A i \in 1..Len(E.classes) : E.classes[i] \in {"same", "panic"}, {"C17"}, "result-depends-on-earlier-operations")
    /\ nseq' = nseq + 1
    /\ nfail' = nfail + (IF \E i \in 1..Len(E.fresh) : E.fresh[i] = "err" THEN 1 ELSE 0)
TNext == T_Reset \/ T_Seq
TSpec == TInit /\ [][TNext]_<<vars, l>>
=============================================================================
