------------------------------ MODULE PageLayer ------------------------------
(***************************************************************************)
(* The CRC page layer of cry-inc/e57: a device (byte sequence + cursor),   *)
(* PagedWriter (src/paged_writer.rs) and PagedReader (src/paged_reader.rs) *)
(* at the REAL constants: 1020 payload bytes + 4 checksum bytes per page,  *)
(* CRC-32C stored big-endian.                                              *)
(*                                                                         *)
(* The first part is variable-free (pure operators over explicit state     *)
(* tuples) so that the exhaustive models, the fault model and the trace    *)
(* specifications all share one definition of every step.                  *)
(* Writer state tuple  ws = <<dev, dpos, woff, wbuf>>                       *)
(*   dev  : device bytes          dpos : device cursor (always page start) *)
(*   woff : fill level of the page buffer, 0..P-1 between calls            *)
(*   wbuf : the 1024-byte page buffer                                      *)
(***************************************************************************)
EXTENDS Naturals, Integers, Sequences, SequencesExt, Bytes, Crc32c

P    == 1020          \* payload bytes per page
C    == 4             \* checksum bytes per page
PAGE == P + C

Seal(buf) == LET pl == SubSeq(buf, 1, P) IN pl \o CrcBytesBE(pl)

\* read_current_page: read up to PAGE bytes at pos, zero-fill the rest
ReadPage(d, pos) == SlicePad(d, pos, PAGE)

WInit == <<<<>>, 0, 0, ZerosN(PAGE)>>

\* ---- Write::write (one call): returns the new state and the count n ------
WriteStep(ws, data) ==
    LET n  == MinN(Len(data), P - ws[3])
        b2 == Over(ws[4], ws[3], SubSeq(data, 1, n))
        o2 == ws[3] + n
    IN IF o2 = P
       THEN LET d2 == Over(ws[1], ws[2], Seal(b2))      \* seal + write_all
                p2 == ws[2] + PAGE
            IN <<<<d2, p2, 0, ReadPage(d2, p2)>>, n>>   \* pre-load next page, seek back
       ELSE <<<<ws[1], ws[2], o2, b2>>, n>>

\* ---- write_all: loop of write ------------------------------------------
RECURSIVE WriteAll(_, _)
WriteAllK(r, data) == WriteAll(r[1], SubSeq(data, r[2] + 1, Len(data)))
WriteAll(ws, data) == IF Len(data) = 0 THEN ws ELSE WriteAllK(WriteStep(ws, data), data)

\* ---- flush: seal and write the partial page, cursor restored -------------
Flushed(ws) == IF ws[3] > 0 THEN <<Over(ws[1], ws[2], Seal(ws[4])), ws[2], ws[3], Seal(ws[4])>>
               ELSE ws
\* (after flush the buffer holds the sealed page: payload unchanged, crc bytes set;
\*  the crc bytes of wbuf are never observable, Seal() recomputes them)

\* ---- physical_seek ---------------------------------------------------------
SeekOk(ws, pos) == LET f == Flushed(ws) IN pos <= Len(f[1]) /\ (pos % PAGE) < P
Seeked(ws, pos) == LET f == Flushed(ws)
                       pg == (pos \div PAGE) * PAGE
                   IN <<f[1], pg, pos % PAGE, ReadPage(f[1], pg)>>
\* what the code does today when the seek is refused: flushed, cursor left at the end
SeekFailed(ws) == LET f == Flushed(ws) IN <<f[1], Len(f[1]), f[3], f[4]>>

PhysPos(ws)  == ws[2] + ws[3]
PhysSize(ws) == Len(Flushed(ws)[1])

\* ---- align ------------------------------------------------------------------
AlignPad(ws) == IF ws[3] % 4 = 0 THEN <<>> ELSE ZerosN(4 - (ws[3] % 4))
Aligned(ws)  == WriteAll(ws, AlignPad(ws))

\* ---- logical cursor / position translation ---------------------------------
LCur(ws) == (ws[2] \div PAGE) * P + ws[3]
Log2Phys(l) == l + C * (l \div P)
Phys2Log(p) == p - C * (p \div PAGE)

\* page k of the logical stream lg, zero padded
LgPadded(lg, k) == SlicePad(lg, k * P, P)

NPages(d) == Len(d) \div PAGE
PageOf(d, k) == SubSeq(d, k * PAGE + 1, (k + 1) * PAGE)
PageValid(d, k) == PageOf(d, k) = Seal(PageOf(d, k))
CeilDiv(a, b) == (a + b - 1) \div b

\* C11, holds in every state between calls
InvBetween(ws, lg) ==
    /\ Len(ws[1]) % PAGE = 0 /\ ws[2] % PAGE = 0 /\ ws[3] \in 0..(P - 1)
    /\ \A k \in 0..(NPages(ws[1]) - 1) :
          /\ PageValid(ws[1], k)
          /\ k # ws[2] \div PAGE => SubSeq(PageOf(ws[1], k), 1, P) = LgPadded(lg, k)
    /\ SubSeq(ws[4], 1, P) = LgPadded(lg, ws[2] \div PAGE)
    /\ Len(lg) <= MaxN(NPages(ws[1]), (ws[2] \div PAGE) + 1) * P

\* C11, first sentence: holds at flush points (after flush, seek, size, drop)
InvFlushPoint(d, lg) ==
    /\ Len(d) = PAGE * CeilDiv(Len(lg), P)
    /\ \A k \in 0..(NPages(d) - 1) :
          PageValid(d, k) /\ SubSeq(PageOf(d, k), 1, P) = LgPadded(lg, k)

(***************************************************************************)
(* Reader state tuple rs = <<roff, rtag, rbuf>> over an image img with     *)
(* page size 1024.  rtag = -1 means "no page cached".                      *)
(***************************************************************************)
RInit == <<0, -1, ZerosN(PAGE)>>
ROpenOk(img) == Len(img) > 0 /\ Len(img) % PAGE = 0

RSeekOk(img, off) == off < Len(img)
RSeeked(rs, off) == <<off - (off \div PAGE) * C, rs[2], rs[3]>>

\* read(n): <<new state, result>> ; result is [ok |-> bytes] or [err |-> 1]
RRead(img, rs, n) ==
    LET page == rs[1] \div P
    IN IF page >= NPages(img) THEN <<rs, [ok |-> << >>]>>
       ELSE LET pg == IF rs[2] = page THEN rs[3] ELSE PageOf(img, page)
                ok == rs[2] = page \/ pg = Seal(pg)
                po == rs[1] % P
                k  == MinN(n, P - po)
            IN IF ~ok THEN <<<<rs[1], -1, pg>>, [err |-> 1]>>
               ELSE <<<<rs[1] + k, page, pg>>, [ok |-> SubSeq(pg, po + 1, po + k)]>>

RAlignOk(img, rs) == (rs[1] % 4) = 0 \/ rs[1] + (4 - (rs[1] % 4)) <= NPages(img) * P
RAligned(rs) == IF (rs[1] % 4) = 0 THEN rs ELSE <<rs[1] + (4 - (rs[1] % 4)), rs[2], rs[3]>>

\* payload of an image (all pages, checksums stripped)
RECURSIVE PayloadFrom(_, _)
PayloadFrom(img, k) == IF k >= NPages(img) THEN <<>>
                       ELSE SubSeq(img, k * PAGE + 1, k * PAGE + P) \o PayloadFrom(img, k + 1)
Payload(img) == PayloadFrom(img, 0)
CorruptPages(img) == {k \in 0..(NPages(img) - 1) : ~PageValid(img, k)}

\* deterministic data pattern used by the bounded models (nonzero, position dependent)
Pat == [i \in 1..8192 |-> (i % 251) + 1]
PatData(salt, n) == SubSeq(Pat, 7 * salt + 1, 7 * salt + n)
=============================================================================
