---------------------------- MODULE MC_PacketW ----------------------------
(* Bounded instance of PacketWriterSpec: capacity 40 bytes, margin 4, header 6. *)
EXTENDS PacketWriterSpec
Ws == {0, 1, 5, 8, 13, 64}
MCProtos == {<<a>> : a \in Ws \cup {300}} \cup {<<a, b>> : a \in Ws, b \in Ws} \cup {<<a, b, c>> : a \in {0, 5, 64}, b \in {1, 13}, c \in Ws}
             \cup {<<1, 1, 1, 1, 1, 1, 1, 1, 1, 1>>, <<1, 1, 1, 1, 1, 1, 1, 1, 1, 1, 1>>, <<8, 8, 8, 8, 8, 8, 8, 8, 8>>}
=============================================================================
