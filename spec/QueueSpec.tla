------------------------------ MODULE QueueSpec ------------------------------
(***************************************************************************)
(* Design-level model of reading one compressed-vector section: the queue  *)
(* reader (QueueLayer) driven by the point iterators' refill loop          *)
(* (src/pc_reader_raw.rs, src/pc_reader_simple.rs) against EVERY legal     *)
(* packetisation a producer may have chosen: each record's byte stream     *)
(* (ceil(n * width / 8) bytes for n points, zero padded) is cut at         *)
(* arbitrary byte positions, independently per record, into data packets;  *)
(* index, ignored and empty data packets lie in between.                   *)
(*                                                                         *)
(* The environment reveals the next packet when the reader advances, which *)
(* is the same as quantifying over all files.                              *)
(*                                                                         *)
(* `Variant` selects the protocol:                                         *)
(*   "asbuilt"         as the code stands                                  *)
(*   "single_advance"  one advance per next() instead of a loop (the       *)
(*                     defect D-09 repaired in the simple iterator)        *)
(*   "no_cap"          next() without the `read >= records` test           *)
(*   "fill_cap"        regeneration of zero-width values bounded per       *)
(*                     advance by FillCap (seeded change C01-C)            *)
(*   "allzero_allowed" all-zero-width prototypes not refused (defect D-14) *)
(* TLC shows the invariants below for "asbuilt" and a counterexample for   *)
(* every other variant.                                                    *)
(***************************************************************************)
EXTENDS QueueLayer, FiniteSets

CONSTANTS Variant,     \* see above
          Widths,      \* set of width tuples to explore
          MaxN,        \* points encoded: 0..MaxN
          MaxOther,    \* budget of index / ignored / empty data packets
          FillCap,     \* bound used by "fill_cap"
          Driver       \* "iterator": the refill loop; "direct": advance and pop in any order

VARIABLES q,    \* queue reader state (QueueLayer)
          env,  \* the rest of the file: [n, decl, rem, other]
          it    \* iterator: [read, mode, fills]

qvars == <<q, env, it>>

StreamBytes(n, w) == (n * w + 7) \div 8
Cap == IF Variant = "fill_cap" THEN FillCap ELSE QInf
\* the cost fields are history; QueueCostSpec follows them, here they would only multiply states
QNoCost(x) == [x EXCEPT !.work = 0, !.moved = 0]

Init == \E w \in Widths : \E n \in 0..MaxN :
          /\ env = [n |-> n, decl |-> n, rem |-> QTup(LAMBDA i : StreamBytes(n, w[i]), 1, Len(w)), other |-> MaxOther]
          /\ IF QNewOk(w) \/ Variant = "allzero_allowed"
             THEN q = QNew(w) /\ it = [read |-> 0, mode |-> "idle", fills |-> 0]
             ELSE q = QNew(w) /\ it = [read |-> 0, mode |-> "refused", fills |-> 0]

\* ---- the producer's choices --------------------------------------------------------------
RECURSIVE SizeChoices(_, _)
\* all tuples s with s[i] \in 0..rem[i]
SizeChoices(rem, i) ==
    IF i > Len(rem) THEN {<<>>}
    ELSE {<<c>> \o t : c \in 0..rem[i], t \in SizeChoices(rem, i + 1)}
IsEmptySizes(s) == \A i \in 1..Len(s) : s[i] = 0
\* (as operators of an environment value e, so that MC_Queue can also enumerate whole files with them)
AllDeliveredOf(e) == \A i \in 1..Len(e.rem) : e.rem[i] = 0
\* packets the producer may have put next
NextPacketsOf(e) ==
    {[t |-> "data", sizes |-> s] : s \in {s \in SizeChoices(e.rem, 1) : ~IsEmptySizes(s) \/ e.other > 0}}
      \cup (IF e.other > 0 THEN {[t |-> "index"], [t |-> "ignored"]} ELSE {})
EnvAfterOf(e, pkt) ==
    IF pkt.t = "data" /\ ~IsEmptySizes(pkt.sizes)
    THEN [e EXCEPT !.rem = QTup(LAMBDA i : e.rem[i] - pkt.sizes[i], 1, Len(e.rem))]
    ELSE [e EXCEPT !.other = @ - 1]
AllDelivered == AllDeliveredOf(env)
NextPackets == NextPacketsOf(env)
EnvAfter(pkt) == EnvAfterOf(env, pkt)

\* ---- the iterator's next() ---------------------------------------------------------------
It_Call == /\ Driver = "iterator" /\ it.mode = "idle"
           /\ IF Variant # "no_cap" /\ it.read >= env.decl
              THEN it' = [it EXCEPT !.mode = "done"]
              ELSE it' = [it EXCEPT !.mode = "fill", !.fills = 0]
           /\ UNCHANGED <<q, env>>
MayFill == it.mode = "fill" /\ QAvail(q) < 1 /\ (Variant = "single_advance" => it.fills = 0)
It_Fill == /\ MayFill
           /\ \E pkt \in NextPackets :
                /\ q' = QNoCost(QAdvance(q, pkt, Cap))
                /\ env' = EnvAfter(pkt)
           /\ it' = [it EXCEPT !.fills = @ + 1]
\* nothing is left of the section but the reader wants more: it reads whatever follows as a packet
It_Past == /\ MayFill /\ AllDelivered
           /\ it' = [it EXCEPT !.mode = "past"] /\ UNCHANGED <<q, env>>
It_Yield == /\ it.mode = "fill" /\ QAvail(q) >= 1
            /\ q' = QPop(q)
            /\ it' = [it EXCEPT !.mode = "idle", !.read = @ + 1]
            /\ UNCHANGED env
It_FailSingle == /\ Variant = "single_advance" /\ it.mode = "fill" /\ it.fills = 1 /\ QAvail(q) < 1
                 /\ it' = [it EXCEPT !.mode = "failed"] /\ UNCHANGED <<q, env>>

\* ---- direct use of the queue reader ------------------------------------------------------
D_Advance == /\ Driver = "direct" /\ it.mode = "idle"
             /\ \E pkt \in NextPackets : q' = QNoCost(QAdvance(q, pkt, Cap)) /\ env' = EnvAfter(pkt)
             /\ UNCHANGED it
D_Pop == /\ Driver = "direct" /\ it.mode = "idle" /\ QAvail(q) >= 1
         /\ q' = QPop(q) /\ it' = [it EXCEPT !.read = @ + 1] /\ UNCHANGED env

Next == It_Call \/ It_Fill \/ It_Past \/ It_Yield \/ It_FailSingle \/ D_Advance \/ D_Pop
Spec == Init /\ [][Next]_qvars /\ WF_qvars(Next)

\* ---- properties --------------------------------------------------------------------------
\* every point of a well-formed section is delivered without reading past the section or failing
NoPastNoFail == it.mode \notin {"past", "failed"}
\* never more points than declared (C09), and only encoded ones, never padding bits (C03)
CapHolds == it.read <= env.decl /\ it.read <= env.n
\* the iterator ends exactly at the declared count
DoneMeansAll == it.mode = "done" => it.read = env.decl
\* memory: no queue is longer than the bits consumed (C09)
MemBound == \A i \in 1..Len(q.w) : q.ql[i] <= 8 * q.bytes
WellFormed == QWellFormed(q)
\* when the whole section has been consumed, everything encoded is in the queues or delivered
AllArrive == (AllDelivered /\ it.mode # "refused") => \A i \in 1..Len(q.w) : q.w[i] # 0 => q.taken[i] >= env.n
\* a prototype is refused exactly when no record occupies bits
RefusedIffAllZero == (it.mode = "refused") <=> (QAllZero(q.w) /\ Variant # "allzero_allowed")
\* next() terminates
Terminates == <>(it.mode \in {"done", "past", "failed", "refused"} \/ Driver = "direct")
=============================================================================
