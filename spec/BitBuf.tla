-------------------------------- MODULE BitBuf --------------------------------
(***************************************************************************)
(* The two bit-stream machines of the crate as state machines:             *)
(*   write buffer (src/bs_write.rs): bytes + number of used bits in the    *)
(*     last byte; add_bits(data, n), add_bytes, get_full_bytes,            *)
(*     get_all_bytes, full_bytes, all_bytes                                *)
(*   read buffer (src/bs_read.rs): bytes + bit offset; append(bytes),      *)
(*     extract(n) -> low n bits or none, available                         *)
(* with the abstract bit string as ghost: everything added, LSB first.     *)
(* Values are 64-bit limbs (Bytes.tla).                                    *)
(***************************************************************************)
EXTENDS E57Encode

VARIABLES
    wb,      \* write buffer: [bytes, last] (last = bits used in the final byte, 0 = byte aligned)
    wbits,   \* ghost: all bits ever added (LSB first)
    wout,    \* ghost: all bytes ever drained
    rb,      \* read buffer: [bytes, off] (bit offset into bytes)
    rbits,   \* ghost: all bits ever appended (as bits)
    rpos,    \* ghost: number of bits extracted so far
    bres     \* result of the last operation

bvars == <<wb, wbits, wout, rb, rbits, rpos, bres>>

BInit == /\ wb = [bytes |-> <<>>, last |-> 0] /\ wbits = <<>> /\ wout = <<>>
         /\ rb = [bytes |-> <<>>, off |-> 0] /\ rbits = <<>> /\ rpos = 0 /\ bres = <<>>

RECURSIVE BytesBits(_)
BytesBits(bs) == IF bs = <<>> THEN <<>> ELSE BitsOfN(Head(bs), 8) \o BytesBits(Tail(bs))

\* ---- write buffer ------------------------------------------------------------------------
\* add the low n bits of value v (limbs)
W_AddBits(v, n) ==
    /\ wbits' = wbits \o BitsOfL(v, n)
    /\ LET all == BytesBits(wb.bytes)
           used == IF wb.last = 0 THEN Len(all) ELSE Len(all) - 8 + wb.last
           nb == SubSeq(all, 1, used) \o BitsOfL(v, n)
       IN wb' = [bytes |-> PackBits(nb), last |-> Len(nb) % 8]
    /\ bres' = <<>> /\ UNCHANGED <<wout, rb, rbits, rpos>>

FullBytes == IF wb.last # 0 THEN Len(wb.bytes) - 1 ELSE Len(wb.bytes)
W_GetFull ==
    /\ bres' = SubSeq(wb.bytes, 1, FullBytes)
    /\ wout' = wout \o SubSeq(wb.bytes, 1, FullBytes)
    /\ wb' = [bytes |-> SubSeq(wb.bytes, FullBytes + 1, Len(wb.bytes)), last |-> wb.last]
    /\ UNCHANGED <<wbits, rb, rbits, rpos>>
\* get_all_bytes: the partial byte goes out zero padded, the stream restarts byte aligned
W_GetAll ==
    /\ bres' = wb.bytes
    /\ wout' = wout \o wb.bytes
    /\ wb' = [bytes |-> <<>>, last |-> 0]
    /\ wbits' = wbits \o SubSeq(<<0, 0, 0, 0, 0, 0, 0, 0>>, 1, (8 - (Len(wbits) % 8)) % 8)
    /\ UNCHANGED <<rb, rbits, rpos>>

\* invariant: drained bytes followed by the buffer are exactly the packing of the abstract bit string
WriteBufferIsPack == wout \o wb.bytes = PackBits(wbits) /\ wb.last = Len(wbits) % 8

\* ---- read buffer -------------------------------------------------------------------------
R_Append(bs) ==
    /\ rbits' = rbits \o BytesBits(bs)
    /\ LET consumed == rb.off \div 8
       IN rb' = [bytes |-> SubSeq(rb.bytes, consumed + 1, Len(rb.bytes)) \o bs, off |-> rb.off - 8 * consumed]
    /\ bres' = <<>> /\ UNCHANGED <<wb, wbits, wout, rpos>>

Available == Len(rb.bytes) * 8 - rb.off
RECURSIVE BitsVal16(_)
BitsVal16(b) == IF b = <<>> THEN 0 ELSE Head(b) + 2 * BitsVal16(Tail(b))
BitsToL(b) == <<BitsVal16(SubSeq(b, 1, MinN(16, Len(b)))),
                IF Len(b) > 16 THEN BitsVal16(SubSeq(b, 17, MinN(32, Len(b)))) ELSE 0,
                IF Len(b) > 32 THEN BitsVal16(SubSeq(b, 33, MinN(48, Len(b)))) ELSE 0,
                IF Len(b) > 48 THEN BitsVal16(SubSeq(b, 49, MinN(64, Len(b)))) ELSE 0>>
\* extract(n): the next n bits as a value (the caller masks), or "none" when fewer are available
R_Extract(n) ==
    /\ IF Available < n
       THEN bres' = <<"none">> /\ UNCHANGED <<rb, rpos>>
       ELSE /\ bres' = <<"some", BitsToL(SubSeq(BytesBits(rb.bytes), rb.off + 1, rb.off + n))>>
            /\ rb' = [rb EXCEPT !.off = @ + n]
            /\ rpos' = rpos + n
    /\ UNCHANGED <<wb, wbits, wout, rbits>>

\* invariant: what remains in the buffer is the unread tail of everything appended
ReadBufferIsTail ==
    /\ rb.off <= Len(rb.bytes) * 8
    /\ SubSeq(BytesBits(rb.bytes), rb.off + 1, Len(rb.bytes) * 8) = SubSeq(rbits, rpos + 1, Len(rbits))
=============================================================================
