------------------------------- MODULE PageSpec -------------------------------
(***************************************************************************)
(* State machine of the page layer (one action per public method of        *)
(* PagedWriter / PagedReader) with the ghost logical stream `lg`.          *)
(* MC_PageW / MC_PageR bound it for exhaustive search; Trace_Page replays  *)
(* recorded executions of the real types through the same actions.         *)
(***************************************************************************)
EXTENDS PageLayer

VARIABLES
    ws,      \* writer state <<dev, dpos, woff, wbuf>>
    lg,      \* ghost: the logical byte stream the caller has written
    wfail,   \* a physical_seek was refused (behaviour afterwards is not claimed, D-11)
    fp,      \* TRUE iff the last action was a flush point
    img,     \* image the reader is opened on (<<>> = reader not open)
    rs,      \* reader state <<roff, rtag, rbuf>>
    res      \* result of the last action (what the caller saw)

pvars == <<ws, lg, wfail, fp, img, rs, res>>

\* results are uniformly typed records so that TLC can compare them
Ok(v) == [ok |-> v]
Err   == [err |-> 1]
IsErr(r) == "err" \in DOMAIN r

PInit == /\ ws = WInit /\ lg = <<>> /\ wfail = FALSE /\ fp = FALSE
         /\ img = <<>> /\ rs = RInit /\ res = Ok(0)

RUnch == UNCHANGED <<img, rs>>

\* ---- writer actions ---------------------------------------------------
W_WriteAll(data) ==
    /\ ~wfail
    /\ lg' = Over(lg, LCur(ws), data)
    /\ ws' = WriteAll(ws, data)
    /\ fp' = FALSE /\ res' = Ok(0) /\ UNCHANGED wfail /\ RUnch

\* a single Write::write call; may accept fewer bytes than offered
W_Write1(data) ==
    /\ ~wfail
    /\ \E r \in {WriteStep(ws, data)} :
          /\ ws' = r[1]
          /\ res' = Ok(r[2])
          /\ lg' = Over(lg, LCur(ws), SubSeq(data, 1, r[2]))
    /\ fp' = FALSE /\ UNCHANGED wfail /\ RUnch

W_Flush ==
    /\ ~wfail
    /\ ws' = Flushed(ws)
    /\ fp' = TRUE /\ res' = Ok(0) /\ UNCHANGED <<lg, wfail>> /\ RUnch

W_Seek(pos) ==
    /\ ~wfail
    /\ IF SeekOk(ws, pos)
       THEN ws' = Seeked(ws, pos) /\ res' = Ok(0) /\ UNCHANGED wfail
       ELSE ws' = SeekFailed(ws) /\ res' = Err /\ wfail' = TRUE
    /\ fp' = TRUE /\ UNCHANGED lg /\ RUnch

W_Pos ==
    /\ ~wfail
    /\ res' = Ok(PhysPos(ws))
    /\ fp' = FALSE /\ UNCHANGED <<ws, lg, wfail>> /\ RUnch

W_Size ==
    /\ ~wfail
    /\ ws' = Flushed(ws)
    /\ res' = Ok(PhysSize(ws))
    /\ fp' = TRUE /\ UNCHANGED <<lg, wfail>> /\ RUnch

W_Align ==
    /\ ~wfail
    /\ lg' = Over(lg, LCur(ws), AlignPad(ws))
    /\ ws' = Aligned(ws)
    /\ fp' = FALSE /\ res' = Ok(0) /\ UNCHANGED wfail /\ RUnch

\* ---- reader actions ---------------------------------------------------
R_Open(image) ==
    /\ img' = image /\ rs' = RInit
    /\ res' = IF ROpenOk(image) THEN Ok(0) ELSE Err
    /\ UNCHANGED <<ws, lg, wfail, fp>>

R_Seek(off) ==
    /\ ROpenOk(img)
    /\ IF RSeekOk(img, off)
       THEN rs' = RSeeked(rs, off) /\ res' = Ok(RSeeked(rs, off)[1])
       ELSE rs' = rs /\ res' = Err
    /\ UNCHANGED <<ws, lg, wfail, fp, img>>

R_Read(n) ==
    /\ ROpenOk(img)
    /\ \E r \in {RRead(img, rs, n)} : rs' = r[1] /\ res' = r[2]
    /\ UNCHANGED <<ws, lg, wfail, fp, img>>

R_Align ==
    /\ ROpenOk(img)
    /\ IF RAlignOk(img, rs) THEN rs' = RAligned(rs) /\ res' = Ok(0)
                            ELSE rs' = rs /\ res' = Err
    /\ UNCHANGED <<ws, lg, wfail, fp, img>>

\* ---- properties (C11) -----------------------------------------------------
\* between calls: all pages sealed, every page but the current one equals lg,
\* the page buffer equals the current page of lg (incl. pre-existing bytes)
C11_Between == wfail \/ InvBetween(ws, lg)
\* at flush points the device is exactly the paged image of lg
C11_FlushPoint == (fp /\ ~wfail) => InvFlushPoint(ws[1], lg)
\* the position reported translates to the logical cursor
C11_Position == ~wfail => /\ PhysPos(ws) = Log2Phys(LCur(ws))
                          /\ Phys2Log(PhysPos(ws)) = LCur(ws)
                          /\ PhysSize(ws) = PAGE * CeilDiv(Len(lg), P)

\* read side: the cached page is the device page and is sealed; the cursor never
\* passes the end; what read returns is the payload at the cursor
C11_ReadCache == (ROpenOk(img) /\ rs[2] >= 0) =>
                    /\ rs[2] < NPages(img)
                    /\ rs[3] = PageOf(img, rs[2])
                    /\ PageValid(img, rs[2])
=============================================================================
