------------------------------ MODULE PosLemmas ------------------------------
(***************************************************************************)
(* Unbounded complement to C11's translation clause: the arithmetic that   *)
(* relates logical offsets (payload only) and physical offsets (with 4     *)
(* checksum bytes per 1020 payload bytes), proved for ALL naturals with    *)
(* the TLA+ proof system (SMT back end).                                   *)
(***************************************************************************)
EXTENDS Naturals, Integers, TLAPS

P    == 1020
C    == 4
PAGE == 1024

Log2Phys(l) == l + C * (l \div P)
Phys2Log(p) == p - C * (p \div PAGE)

\* the physical image of a logical offset never lies in checksum bytes
THEOREM InPayload == \A l \in Nat : (Log2Phys(l) % PAGE) < P
  BY DEF Log2Phys, P, C, PAGE

\* translating there and back is the identity
\* division with remainder, the one non-linear fact the SMT solver needs spelled out
LEMMA DivMod == \A x \in Nat, d \in Nat \ {0} : /\ x = d * (x \div d) + (x % d)
                                                  /\ (x % d) \in 0..(d - 1) /\ (x \div d) \in Nat
  OBVIOUS
LEMMA DivUnique1024 == \A q \in Nat, r \in 0..1023 : (1024 * q + r) \div 1024 = q /\ (1024 * q + r) % 1024 = r
  OBVIOUS
LEMMA DivUnique1020 == \A q \in Nat, r \in 0..1019 : (1020 * q + r) \div 1020 = q /\ (1020 * q + r) % 1020 = r
  OBVIOUS
LEMMA DivMono1020 == \A a, b \in Nat : a <= b => (a \div 1020) <= (b \div 1020)
  OBVIOUS

THEOREM RoundTrip == \A l \in Nat : Phys2Log(Log2Phys(l)) = l
<1> TAKE l \in Nat
<1> DEFINE q == l \div 1020
<1> DEFINE r == l % 1020
<1>1. l = 1020 * q + r /\ r \in 0..1019 /\ q \in Nat
  BY DivMod
<1>2. Log2Phys(l) = 1024 * q + r
  BY <1>1 DEF Log2Phys, P, C
<1>3. (1024 * q + r) \div 1024 = q
  BY <1>1, DivUnique1024
<1> QED
  BY <1>1, <1>2, <1>3 DEF Phys2Log, PAGE, C

\* every physical offset outside checksum bytes is the image of its logical offset
THEOREM Onto == \A p \in Nat : (p % PAGE) < P => Log2Phys(Phys2Log(p)) = p
<1> TAKE p \in Nat
<1> HAVE (p % PAGE) < P
<1>0. (p % 1024) < 1020
  BY DEF PAGE, P
<1> DEFINE q == p \div 1024
<1> DEFINE r == p % 1024
<1>1a. p = 1024 * q + r /\ r \in 0..1023 /\ q \in Nat
  BY DivMod
<1>1b. r < 1020
  BY <1>0
<1>1c. r \in 0..1019
  BY <1>1a, <1>1b
<1>1. p = 1024 * q + r /\ r \in 0..1019 /\ q \in Nat
  BY <1>1a, <1>1c
<1>2. Phys2Log(p) = 1020 * q + r
  BY <1>1 DEF Phys2Log, PAGE, C
<1>3. (1020 * q + r) \div 1020 = q
  BY <1>1, DivUnique1020
<1> QED
  BY <1>1, <1>2, <1>3 DEF Log2Phys, P, C

\* strictly monotone: order of sections is the same in both address spaces
THEOREM Monotone == \A a, b \in Nat : a < b => Log2Phys(a) < Log2Phys(b)
<1> TAKE a, b \in Nat
<1> HAVE a < b
<1> DEFINE qa == a \div 1020
<1> DEFINE qb == b \div 1020
<1>1. qa <= qb
  BY DivMono1020
<1>2. qa \in Nat /\ qb \in Nat
  BY DivMod
<1>3. Log2Phys(a) = a + 4 * qa /\ Log2Phys(b) = b + 4 * qb
  BY DEF Log2Phys, P, C
<1> HIDE DEF qa, qb
<1> QED
  BY <1>1, <1>2, <1>3

\* 4-byte alignment is the same property in both address spaces
THEOREM Align4 == \A l \in Nat : (l % 4 = 0) <=> (Log2Phys(l) % 4 = 0)
  BY DEF Log2Phys, P, C, PAGE

\* the physical size of n logical bytes, rounded up to whole pages
PhysSize(n) == PAGE * ((n + P - 1) \div P)
THEOREM SizeCovers == \A n \in Nat : n > 0 => /\ Log2Phys(n - 1) < PhysSize(n)
                                              /\ PhysSize(n) - PAGE <= Log2Phys(n - 1)
  BY DEF Log2Phys, PhysSize, P, C, PAGE
=============================================================================
