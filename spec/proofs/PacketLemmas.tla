---------------------------- MODULE PacketLemmas ----------------------------
(***************************************************************************)
(* Unbounded complement to PacketWriterSpec.PacketFits, with the real      *)
(* constants of src/pc_writer.rs: a data packet written by the point-cloud *)
(* writer never exceeds the 65535 bytes its length check allows, for ANY   *)
(* prototype (n records, S bits per point) that passes the capacity test   *)
(* and ANY carry of unwritten bits (at most 7 per stream).                 *)
(*   room  = 65535 - (6 + 2n) - n - 500        (must be >= 0)              *)
(*   maxpp = (room * 8) div S                                              *)
(*   bytes <= (7n + maxpp * S) div 8           (full bytes of all streams) *)
(*   packet = 6 + 2n + bytes, padded to a multiple of 4                    *)
(***************************************************************************)
EXTENDS Naturals, Integers, TLAPS

Room(n) == 65535 - (6 + 2 * n) - n - 500

LEMMA DivMulLe == \A x \in Nat, d \in Nat \ {0} : (x \div d) * d <= x
  OBVIOUS
LEMMA DivMono8 == \A a, b \in Nat : a <= b => (a \div 8) <= (b \div 8)
  OBVIOUS

THEOREM PacketFits ==
    \A n \in Nat, S \in Nat \ {0}, bytes \in Nat :
        (Room(n) >= 0 /\ bytes <= (7 * n + ((Room(n) * 8) \div S) * S) \div 8)
            => 6 + 2 * n + bytes + 3 <= 65535
<1> TAKE n \in Nat, S \in Nat \ {0}, bytes \in Nat
<1> HAVE Room(n) >= 0 /\ bytes <= (7 * n + ((Room(n) * 8) \div S) * S) \div 8
<1> DEFINE r == 65029 - 3 * n
<1>1. Room(n) = r /\ r \in Nat
  BY DEF Room
<1> DEFINE x == r * 8
<1>2. x \in Nat
  BY <1>1
<1> DEFINE k == x \div S
<1>3. k * S <= x /\ k \in Nat
  BY <1>2, DivMulLe
<1>4. 7 * n + k * S <= 7 * n + x /\ (7 * n + k * S) \in Nat
  BY <1>3, <1>2
<1>5. (7 * n + k * S) \div 8 <= (7 * n + x) \div 8
  BY <1>4, <1>2, DivMono8
<1>6. (7 * n + x) \div 8 <= n + r
  BY <1>1
<1>7. bytes <= n + r
  BY <1>1, <1>5, <1>6
<1> QED
  BY <1>7, <1>1
=============================================================================
