---------------------------- MODULE QueueLemmas ----------------------------
(***************************************************************************)
(* Unbounded arithmetic behind QueueSpec (all naturals, all widths):       *)
(*  Conservation  unpacking k = nb div w values leaves fewer than w bits   *)
(*                and loses none: k*w + rest = nb                          *)
(*  AllArrive     the ceil(N*w/8) bytes of a stream hold at least N values *)
(*  PaddingBound  and at most N + (7 div w): only records narrower than a  *)
(*                byte can yield values that were never written, at most 7 *)
(*  (the reason why the iterators must stop at the declared record count   *)
(*   and why they may: CapHolds)                                           *)
(***************************************************************************)
EXTENDS Naturals, Integers, TLAPS

LEMMA DivMod == \A x \in Nat, d \in Nat \ {0} : /\ x = d * (x \div d) + (x % d)
                                                  /\ (x % d) \in 0..(d - 1) /\ (x \div d) \in Nat
  OBVIOUS

LEMMA Distr == \A w, a, d \in Nat : w * (a + d) = w * a + w * d /\ w * d \in Nat /\ w * a \in Nat
  OBVIOUS
LEMMA MulMono == \A w, a, b \in Nat : a <= b => w * a <= w * b
<1> TAKE w, a, b \in Nat
<1> HAVE a <= b
<1> DEFINE d == b - a
<1>1. d \in Nat /\ b = a + d
  OBVIOUS
<1>2. w * (a + d) = w * a + w * d /\ w * d \in Nat /\ w * a \in Nat
  BY <1>1, Distr
<1> QED
  BY <1>1, <1>2

THEOREM Conservation ==
    \A nb \in Nat, w \in Nat \ {0} :
        LET k == nb \div w IN /\ k \in Nat
                              /\ nb - k * w \in 0..(w - 1)
                              /\ k * w + (nb - k * w) = nb
<1> TAKE nb \in Nat, w \in Nat \ {0}
<1>1. nb = w * (nb \div w) + (nb % w) /\ (nb % w) \in 0..(w - 1) /\ (nb \div w) \in Nat
  BY DivMod
<1> QED
  BY <1>1

\* bits of the padded stream for p = N * w payload bits
Padded(p) == ((p + 7) \div 8) * 8
LEMMA PaddedBounds == \A p \in Nat : Padded(p) \in Nat /\ p <= Padded(p) /\ Padded(p) <= p + 7
  BY DEF Padded

LEMMA DivMonoW == \A a, b \in Nat, w \in Nat \ {0} : a <= b => (a \div w) <= (b \div w)
<1> TAKE a, b \in Nat, w \in Nat \ {0}
<1> HAVE a <= b
<1>1. a = w * (a \div w) + (a % w) /\ (a % w) \in 0..(w - 1) /\ (a \div w) \in Nat
  BY DivMod
<1>2. b = w * (b \div w) + (b % w) /\ (b % w) \in 0..(w - 1) /\ (b \div w) \in Nat
  BY DivMod
<1> DEFINE qa == a \div w
<1> DEFINE qb == b \div w
<1>3. w * qa + (a % w) <= w * qb + (b % w)
  BY <1>1, <1>2
<1>4. w * qa < w * (qb + 1)
  BY <1>1, <1>2, <1>3
<1> HIDE DEF qa, qb
<1>5. qa \in Nat /\ qb \in Nat
  BY <1>1, <1>2 DEF qa, qb
<1>6. qa < qb + 1
  BY <1>4, <1>5
<1> QED
  BY <1>5, <1>6 DEF qa, qb

LEMMA DivExact == \A n \in Nat, w \in Nat \ {0}, c \in Nat : c < w => (w * n + c) \div w = n
<1> TAKE n \in Nat, w \in Nat \ {0}, c \in Nat
<1> HAVE c < w
<1> DEFINE x == w * n + c
<1>0. x \in Nat /\ w * n \in Nat
  BY Distr
<1>1. x = w * (x \div w) + (x % w) /\ (x % w) \in 0..(w - 1) /\ (x \div w) \in Nat
  BY <1>0, DivMod
<1> DEFINE q == x \div w
<1> DEFINE r == x % w
<1>2. w * n + c = w * q + r /\ r \in 0..(w - 1) /\ q \in Nat /\ w * q \in Nat
  BY <1>1, <1>0, Distr
<1> HIDE DEF x, q, r
<1>3. q = n
  <2>1. CASE q < n
    <3>1. q + 1 <= n /\ q + 1 \in Nat
      BY <2>1, <1>2
    <3>2. w * (q + 1) <= w * n
      BY <3>1, <1>2, MulMono
    <3>3. w * (q + 1) = w * q + w * 1 /\ w * 1 = w
      BY <1>2, Distr
    <3> QED
      BY <3>2, <3>3, <1>2, <1>0
  <2>2. CASE q > n
    <3>1. n + 1 <= q /\ n + 1 \in Nat
      BY <2>2, <1>2
    <3>2. w * (n + 1) <= w * q
      BY <3>1, <1>2, MulMono
    <3>3. w * (n + 1) = w * n + w * 1 /\ w * 1 = w
      BY <1>2, Distr
    <3>4. w * n + w <= w * q
      BY <3>2, <3>3
    <3>5. w * q + r = w * n + c /\ r \in Nat /\ c \in Nat /\ c < w /\ w \in Nat /\ w * n \in Nat /\ w * q \in Nat
      BY <1>2, <1>0
    <3>6. w * q <= w * n + c
      BY <3>5
    <3>7. w * n + w <= w * n + c
      BY <3>4, <3>6, <3>5
    <3>8. FALSE
      BY <3>7, <3>5
    <3> QED
      BY <3>8
  <2> QED
    BY <2>1, <2>2, <1>2
<1> QED
  BY <1>3 DEF q, x

THEOREM AllArrive == \A n \in Nat, w \in Nat \ {0} : Padded(w * n) \div w >= n
<1> TAKE n \in Nat, w \in Nat \ {0}
<1>1. w * n \in Nat
  BY Distr
<1>2. Padded(w * n) \in Nat /\ w * n <= Padded(w * n)
  BY <1>1, PaddedBounds
<1>3. (w * n) \div w <= Padded(w * n) \div w
  BY <1>1, <1>2, DivMonoW
<1>4. (w * n + 0) \div w = n
  BY DivExact
<1> QED
  BY <1>1, <1>3, <1>4

\* values that were never written: at most 7 div w of them (none for w >= 8)
THEOREM PaddingBound == \A n \in Nat, w \in Nat \ {0} : Padded(w * n) \div w <= n + 7
<1> TAKE n \in Nat, w \in Nat \ {0}
<1>1. w * n \in Nat
  BY Distr
<1>2. Padded(w * n) \in Nat /\ Padded(w * n) <= w * n + 7
  BY <1>1, PaddedBounds
<1>3. w * (n + 7) = w * n + w * 7 /\ w * 7 >= 7 /\ w * (n + 7) \in Nat
  BY <1>1, Distr
<1>4. Padded(w * n) <= w * (n + 7) + 0
  BY <1>1, <1>2, <1>3
<1>5. Padded(w * n) \div w <= (w * (n + 7) + 0) \div w
  BY <1>2, <1>3, <1>4, DivMonoW
<1>6. (w * (n + 7) + 0) \div w = n + 7
  BY DivExact
<1> QED
  BY <1>5, <1>6
THEOREM NoPaddingValuesFromByteWide == \A n \in Nat, w \in Nat \ {0} : w >= 8 => Padded(w * n) \div w = n
<1> TAKE n \in Nat, w \in Nat \ {0}
<1> HAVE w >= 8
<1>1. w * n \in Nat
  BY Distr
<1>2. Padded(w * n) \in Nat /\ w * n <= Padded(w * n) /\ Padded(w * n) <= w * n + 7
  BY <1>1, PaddedBounds
<1> DEFINE c == Padded(w * n) - w * n
<1>3. c \in Nat /\ c < w /\ Padded(w * n) = w * n + c
  BY <1>1, <1>2
<1>4. (w * n + c) \div w = n
  BY <1>3, DivExact
<1> QED
  BY <1>3, <1>4
=============================================================================
