------------------------------- MODULE Crc32c -------------------------------
(***************************************************************************)
(* CRC-32C (Castagnoli / iSCSI) defined from the reflected polynomial      *)
(* 0x82F63B78, initial value 0xFFFFFFFF, final xor 0xFFFFFFFF.             *)
(* TLC integers are 32-bit signed, so a CRC value is a pair <<hi, lo>> of  *)
(* 16-bit halves.  The bit-serial definition (Step1) is tabulated once     *)
(* (Table) and the byte-driven form is what the other modules use.         *)
(***************************************************************************)
EXTENDS Naturals, Sequences, Bitwise, SequencesExt

PolyHi == 33526   \* 0x82F6
PolyLo == 15224   \* 0x3B78

\* one bit of the reflected (LSB-first) shift register
Step1(c) == LET lo2 == (c[2] \div 2) + (c[1] % 2) * 32768
                hi2 == c[1] \div 2
            IN IF c[2] % 2 = 1 THEN <<hi2 ^^ PolyHi, lo2 ^^ PolyLo>> ELSE <<hi2, lo2>>

RECURSIVE StepN(_, _)
StepN(c, n) == IF n = 0 THEN c ELSE StepN(Step1(c), n - 1)

Table == [i \in 0..255 |-> StepN(<<0, i>>, 8)]

ByteStep(c, b) ==
    LET t == Table[(c[2] ^^ b) % 256]
    IN <<(c[1] \div 256) ^^ t[1], ((c[2] \div 256) + (c[1] % 256) * 256) ^^ t[2]>>

\* bit-serial form of one byte (definition; used only to cross-check ByteStep)
ByteStepSerial(c, b) == StepN(<<c[1], c[2] ^^ b>>, 8)

Crc32c(bytes) ==
    LET r == FoldLeft(ByteStep, <<65535, 65535>>, bytes)
    IN <<65535 - r[1], 65535 - r[2]>>

\* the four checksum bytes as stored in an E57 page: big-endian
CrcBytesBE(bytes) ==
    LET c == Crc32c(bytes)
    IN <<c[1] \div 256, c[1] % 256, c[2] \div 256, c[2] % 256>>

\* check vector of the CRC catalogue: CRC-32C("123456789") = 0xE3069283
ASSUME Crc32c(<<49, 50, 51, 52, 53, 54, 55, 56, 57>>) = <<58118, 37507>>
\* table form = bit-serial form on a spread of register values
ASSUME \A b \in {0, 1, 127, 128, 255} :
         \A c \in {<<0, 0>>, <<65535, 65535>>, <<4660, 22136>>, <<33526, 15224>>} :
            ByteStep(c, b) = ByteStepSerial(c, b)
\* CRC-32C of 32 zero bytes (RFC 3720 B.4): 0x8A9136AA
ASSUME Crc32c([i \in 1..32 |-> 0]) = <<35473, 13994>>
=============================================================================
