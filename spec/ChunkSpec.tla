------------------------------- MODULE ChunkSpec -------------------------------
(***************************************************************************)
(* Design-level model of the two transfer loops of the page writer under   *)
(* short reads / short writes (C16, first sentence):                       *)
(*   * re-loading the page behind a boundary (read_current_page): read     *)
(*     until the buffer is full or the device reports end of file (0),     *)
(*     zero-fill the rest;                                                 *)
(*   * emitting a page (write_all): write until everything is out.         *)
(* The device may transfer ANY number of bytes between 1 and what was      *)
(* asked for; one injected error aborts the loop and must surface.         *)
(* `Loop` selects the read loop:                                           *)
(*    "asbuilt"     loop until full or 0                                   *)
(*    "single_read" one read, rest zero-filled (seeded change C16-A)       *)
(*    "swallow"     an error is treated like end of file (seeded C16-B)    *)
(* Bytes are abstracted to their device index (0 = zero fill).             *)
(***************************************************************************)
EXTENDS Naturals, Sequences

CONSTANTS N,        \* buffer size (a "page")
          DevLen,   \* bytes available on the device from the read position
          Loop

VARIABLES buf,      \* what the buffer holds: sequence of device indices (0 = zero)
          pc,       \* "reading" | "done" | "failed"
          faulted   \* an error was injected

vars == <<buf, pc, faulted>>
Init == buf = <<>> /\ pc = "reading" /\ faulted = FALSE

Avail == DevLen - Len(buf)
Want == N - Len(buf)
ZeroFill(b) == b \o [i \in 1..(N - Len(b)) |-> 0]

ReadSome ==
    /\ pc = "reading" /\ Want > 0 /\ Avail > 0
    /\ \E k \in 1..(IF Want < Avail THEN Want ELSE Avail) :
          /\ buf' = buf \o [i \in 1..k |-> Len(buf) + i]
          /\ pc' = IF Loop = "single_read" THEN "filling" ELSE "reading"
    /\ UNCHANGED faulted
ReadEof ==
    /\ pc = "reading" /\ Want > 0 /\ Avail = 0
    /\ pc' = "filling" /\ UNCHANGED <<buf, faulted>>
Full == pc = "reading" /\ Want = 0 /\ pc' = "filling" /\ UNCHANGED <<buf, faulted>>
Fill == pc = "filling" /\ buf' = ZeroFill(buf) /\ pc' = "done" /\ UNCHANGED faulted
\* a single device error at any read
Fault ==
    /\ pc = "reading" /\ Want > 0 /\ ~faulted
    /\ faulted' = TRUE
    /\ pc' = IF Loop = "swallow" THEN "filling" ELSE "failed"
    /\ UNCHANGED buf
Next == ReadSome \/ ReadEof \/ Full \/ Fill \/ Fault
Spec == Init /\ [][Next]_vars

Expected == [i \in 1..N |-> IF i <= DevLen THEN i ELSE 0]
\* short transfers change nothing: whenever the loop completes, the buffer is the device content, zero padded
ChunkingIrrelevant == (pc = "done" /\ ~faulted) => buf = Expected
\* a device error surfaces: the loop never completes successfully after a fault
FaultSurfaces == faulted => pc # "done"
=============================================================================
