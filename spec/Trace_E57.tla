------------------------------ MODULE Trace_E57 ------------------------------
(***************************************************************************)
(* Trace validation of file-level executions (writer programs followed by  *)
(* reader operations) against E57Spec, with the independent decoder        *)
(* E57Format as judge of the bytes the real writer produced.               *)
(* Tags: P:Cxx:... property-tier predicate of property Cxx; S:... strict.  *)
(***************************************************************************)
EXTENDS E57Meta, TraceBase, QueueLayer, PacketLayer

\* the queue reader driven directly (q_* events): its model state, the packets and streams of the section it reads
VARIABLE qs
NoQueue == [live |-> FALSE]

TInit == EInit /\ l = 1 /\ qs = NoQueue /\ TLCSet(1, <<0, "none">>)

E == Rec[l]
\* a call that panicked: the content handed to the writer was not stored, whatever property the
\* run was exploring; the run ends there (the harness stops the program)
Panicked == "panic" \in DOMAIN E.res
WriterPids == {"C10", "C01", "C04", "C06", "C12", "C14", "C19"}
ReaderPids == {"C08", "C01", "C03", "C05", "C06", "C17"}
NoPanic == ~Panicked
WriterEvents == {"w_new", "w_ext", "w_blob", "pc_new", "pc_point", "pc_finalize", "im_new", "im_add", "im_finalize", "w_finalize"}
T_Panic == /\ l <= Len(Rec) /\ "res" \in DOMAIN E /\ Panicked /\ l' = l + 1
           /\ ChkP(FALSE, IF E.ev \in WriterEvents THEN WriterPids ELSE ReaderPids, "call-panicked:" \o E.ev)
           /\ sc' = [sc EXCEPT !.dead = TRUE] /\ UNCHANGED <<file, res>>

T_Reset == IsEv("reset") /\ sc' = EmptyScene /\ file' = [img |-> <<>>, L |-> <<>>, xml |-> <<>>] /\ res' = Ok(0)

\* a scene encoded by the independent encoder (no writer calls): the file that follows must read back as it
SceneOf(s) == [EmptyScene EXCEPT !.guid = s.guid, !.fin = TRUE, !.foreign = TRUE,
               !.pcs = [i \in 1..Len(s.pcs) |-> [open |-> FALSE, guid |-> s.pcs[i].guid, proto |-> s.pcs[i].proto,
                                                 pts |-> s.pcs[i].pts, reals |-> <<>>, meta |-> <<>>]]]
T_Scene == IsEv("s_scene") /\ sc' = SceneOf(E.scene) /\ UNCHANGED <<file, res>>
\* Iterator::size_hint = (records - consumed, Some(records - consumed)) for both iterators
T_RHints == /\ IsEv("r_hints") /\ ~Panicked
            /\ ChkP(IsOk(E.res), {"C01", "C05"}, "iteration-for-size-hints-failed")
            /\ IsOk(E.res) => \A i \in 1..Len(E.res.ok) :
                  LET h == E.res.ok[i]
                  IN ChkP(h[3] = Sub64(E.records, h[2]) /\ h[4] = SomeV(h[3]), {"C01", "C05"}, "size-hint-is-not-records-minus-consumed")
            /\ res' = E.res /\ UNCHANGED <<sc, file>>
T_RSimpleCount == /\ IsEv("r_simple_count") /\ ~Panicked
                  /\ ChkP(IsOk(E.res) /\ IsOk(E.res) => E.res.ok = NatToL64(Len(sc.pcs[E.pc].pts)), {"C05", "C03"}, "simple-iterator-count-differs-from-record-count")
                  /\ res' = E.res /\ UNCHANGED <<sc, file>>

T_WNew == IsEv("w_new") /\ NoPanic /\ W_New(E.guid, E.res)
T_WCoord == IsEv("w_coord") /\ W_SetRoot("coord", E.v)
T_WCreation == IsEv("w_creation") /\ W_SetRoot("creation", E.v)
T_WExt == IsEv("w_ext") /\ NoPanic
          /\ ChkP(ENABLED W_Ext(E.ns, E.url, E.nameok = 1, E.res), {"C10"}, "extension-acceptance")
          /\ W_Ext(E.ns, E.url, E.nameok = 1, E.res)

T_WBlob == /\ IsEv("w_blob") /\ NoPanic
           /\ ChkP(IsOk(E.res), {"C10", "C06"}, "valid-call-rejected")
           /\ ChkP(E.res.ok.len = NatToL64(Len(E.b)), {"C06"}, "blob-descriptor-length")
           /\ W_Blob(E.b, E.res)

T_PcNew == /\ IsEv("pc_new") /\ NoPanic
           /\ \E v \in {ProtoVerdict(E.proto, sc.exts, E.namesok = 1)} :
                /\ ChkP(v = "ok" => IsOk(E.res), {"C01"}, "valid-prototype-rejected")
                /\ ChkP(v = "err" => IsErr(E.res), {"C10"}, "invalid-prototype-accepted")
           /\ PC_New(E.guid, E.proto, E.res)
T_PcSet == IsEv("pc_set") /\ PC_Set(E.f, E.v)
T_PcPoints == /\ IsEv("pc_points")
              /\ ChkP(\A k \in 1..Len(E.pts) : PointFits(sc.pc.proto, E.pts[k]), {"C10"}, "unrepresentable-value-accepted")
              /\ PC_Points(E.pts, IF Has(E, "reals") THEN E.reals ELSE <<>>)
T_PcPoint == /\ IsEv("pc_point") /\ NoPanic
             /\ Chk(IsErr(E.res), "S:single-point-event-must-be-a-rejection")
             /\ ChkP(~PointFits(sc.pc.proto, E.vals), {"C01"}, "valid-point-rejected")
             /\ PC_PointRejected(E.res)
T_PcFinalize == IsEv("pc_finalize") /\ NoPanic /\ ChkP(IsOk(E.res), {"C10", "C01"}, "valid-call-rejected") /\ PC_Finalize(E.res)
T_PcDrop == IsEv("pc_drop") /\ PC_Drop
\* a second finalize() on the same point cloud / image writer: the object is spent, nothing may be added once more
T_PcFinalizeAgain == /\ IsEv("pc_finalize_again") /\ NoPanic
                     /\ ChkP(IsErr(E.res), {"C10", "C01"}, "second-finalize-of-a-point-cloud-writer-accepted")
                     /\ sc' = sc /\ res' = E.res /\ UNCHANGED file
T_ImFinalizeAgain == /\ IsEv("im_finalize_again") /\ NoPanic
                     /\ ChkP(IsErr(E.res), {"C10", "C04"}, "second-finalize-of-an-image-writer-accepted")
                     /\ sc' = sc /\ res' = E.res /\ UNCHANGED file

T_ImNew == IsEv("im_new") /\ NoPanic /\ ChkP(IsOk(E.res), {"C10"}, "valid-call-rejected") /\ IM_New(E.guid, E.res)
T_ImSet == IsEv("im_set") /\ IM_Set(E.f, E.v)
T_ImAdd == /\ IsEv("im_add") /\ NoPanic
           /\ \E rep \in {[kind |-> E.kind, fmt |-> E.fmt, data |-> E.b, mask |-> E.mask, props |-> E.props]} :
                /\ ChkP(ENABLED IM_Add(rep, E.res), {"C10"}, "second-projection-accepted")
                /\ ChkP((~IsProjection(E.kind) \/ ~HasProjection(sc.im.reps)) => IsOk(E.res), {"C10", "C06"}, "valid-call-rejected")
                /\ IM_Add(rep, E.res)
T_ImFinalize == /\ IsEv("im_finalize") /\ NoPanic
                /\ ChkP(ENABLED IM_Finalize(E.res), {"C10"}, "empty-image-accepted")
                /\ ChkP(sc.im.reps # <<>> => IsOk(E.res), {"C10"}, "valid-call-rejected")
                /\ IM_Finalize(E.res)
T_ImDrop == IsEv("im_drop") /\ IM_Drop

MaxXml == 10485760
T_WFinalize == /\ IsEv("w_finalize") /\ NoPanic
               /\ ChkP(ENABLED W_Finalize(E.res, E.custom), {"C10"}, "empty-guid-accepted")
               \* E.nonxml: the program passed a string with a character XML 1.0 cannot represent (asserted by the generator):
               \* it cannot be stored faithfully, finalize may (and, for the file to be readable, must) refuse
               \* the reader accepts XML sections of at most 10 MiB; a file whose XML must be longer (E.text_lb = bytes of text
               \* handed to the writer) may be refused by finalize -- and must be, or the library could not read its own file
               /\ ChkP((sc.guid # "" /\ ~sc.dead /\ ~E.custom /\ E.text_lb <= MaxXml - 1048576 /\ E.nonxml = 0) => IsOk(E.res), {"C10", "C01", "C04", "C06"}, "valid-call-rejected")
               /\ W_Finalize(E.res, E.custom)

\* a finalized file too large to be recorded: the library must at least open what it wrote
T_BigReadback == /\ IsEv("big_readback") /\ NoPanic
                 /\ Chk(sc.fin, "S:readback-without-successful-finalize")
                 /\ ChkP(IsOk(E.res), {"C10", "C01", "C04", "C06", "C12", "C14", "C19", "C03"}, "finalized-file-does-not-open")
                 /\ UNCHANGED <<sc, file, res>>

\* ------------------------------------------------------------------ the finalized file (C02, C01, C06)
RECURSIVE PacketListOf(_, _, _, _)
PacketListOf(L, pos, secEnd, nrec) ==
    IF pos + 4 > secEnd THEN <<>>
    ELSE LET plen == U16(L, pos + 2) + 1
         IN <<IF L[pos + 1] = 1 THEN [t |-> "data", sizes |-> U16Seq(L, pos + 6, nrec)]
              ELSE IF L[pos + 1] = 0 THEN [t |-> "index"] ELSE [t |-> "ignored"]>>
            \o PacketListOf(L, pos + plen, secEnd, nrec)
PcOk(img, L, pcnode, pc, i) ==
    /\ ChkP(PcNodeShapeOk(pcnode), {"C02"}, "data3D-entry-shape")
    /\ ChkP(XCount(pcnode) = NatToL64(Len(pc.pts)), {"C01"}, "record-count")
    /\ \E xp \in {XProto(pcnode)} :
         /\ ChkP(xp = pc.proto, {"C01"}, "prototype-differs")
         /\ \E cv \in {CvAt(img, L, XOffset(pcnode), Len(xp))} :
              /\ ChkP(cv.ok, {"C02"}, "compressed-vector-section:" \o cv.why)
              /\ cv.ok => \A j \in 1..Len(xp) :
                            ChkP(StreamEncodes(xp[j], cv.streams[j], pc.pts, j), {"C01", "C12"}, "stream-does-not-encode-the-points")
              \* strict tier (never rejects): the crate's writer cuts the points into packets as PacketWriterSpec says
              /\ (cv.ok /\ ~sc.foreign /\ xp = pc.proto) =>
                    LET lp == Phys2Log(XOffset(pcnode))
                        pl == PacketListOf(L, Phys2Log(U64Small(L, lp + 16)), lp + U64Small(L, lp + 8), Len(xp))
                    IN Soft(pl = PTup(LAMBDA k : [t |-> "data", sizes |-> PPackets(PTup(LAMBDA j : Width(xp[j]), 1, Len(xp)), Len(pc.pts), 65535, 500, 6)[k]],
                                      1, Len(PPackets(PTup(LAMBDA j : Width(xp[j]), 1, Len(xp)), Len(pc.pts), 65535, 500, 6))),
                            "S:packetisation-differs-from-PacketWriterSpec")

BlobOk(img, L, off, len, data, tag) ==
    \E b \in {BlobAt(img, L, off, len)} :
        /\ ChkP(b.ok, {"C02"}, "blob-section:" \o b.why)
        /\ b.ok => /\ ChkP(b.data = data, {"C06"}, "blob-bytes-differ")
                   /\ ChkP(b.reserved0 /\ b.padzero, {"C02"}, "blob-reserved-or-padding-not-zero")
                   /\ ChkP(b.seclen = BlobStdLen(len), {"C02"}, "blob-section-length-field")

RepOk(img, L, repnode, rep) ==
    /\ ChkP(RepKind(repnode.name) = rep.kind, {"C04"}, "image-representation-kind")
    /\ ChkP(HasKid(repnode, "jpegImage") \/ HasKid(repnode, "pngImage"), {"C02"}, "image-blob-missing")
    /\ (HasKid(repnode, "jpegImage") \/ HasKid(repnode, "pngImage")) =>
         /\ ChkP(RepFmt(repnode) = rep.fmt, {"C04"}, "image-format")
         /\ ChkP(BlobNodeOk(RepImageNode(repnode)), {"C02"}, "blob-descriptor-shape")
         /\ BlobNodeOk(RepImageNode(repnode)) =>
              /\ ChkP(AttrV(RepImageNode(repnode), "length").i = Len(rep.data), {"C06"}, "image-blob-length")
              /\ BlobOk(img, L, AttrV(RepImageNode(repnode), "fileOffset").i, Len(rep.data), rep.data, "image")
    /\ ChkP(IsSome(rep.mask) <=> HasKid(repnode, "imageMask"), {"C06"}, "mask-presence")
    /\ (IsSome(rep.mask) /\ HasKid(repnode, "imageMask")) =>
         /\ ChkP(BlobNodeOk(Kid(repnode, "imageMask")), {"C02"}, "blob-descriptor-shape")
         /\ BlobNodeOk(Kid(repnode, "imageMask")) =>
              /\ ChkP(AttrV(Kid(repnode, "imageMask"), "length").i = Len(rep.mask.some), {"C06"}, "mask-length")
              /\ BlobOk(img, L, AttrV(Kid(repnode, "imageMask"), "fileOffset").i, Len(rep.mask.some), rep.mask.some, "mask")

\* the writer keeps one visual reference and one projection per image (a later visual replaces the earlier)
LastVisual(reps) == LET vs == SelectSeq(reps, LAMBDA r : r.kind = "visual") IN IF vs = <<>> THEN <<>> ELSE <<vs[Len(vs)]>>
Projections(reps) == SelectSeq(reps, LAMBDA r : IsProjection(r.kind))
ExpectedReps(reps) == LastVisual(reps) \o Projections(reps)

ImageOk(img, L, imnode, im) ==
    \E rn \in {RepNodes(imnode)} : \E er \in {ExpectedReps(im.reps)} :
        /\ ChkP(Len(rn) = Len(er), {"C04"}, "image-representations-count")
        /\ Len(rn) = Len(er) => \A j \in 1..Len(rn) : RepOk(img, L, rn[j], er[j])

FileOk(img, xml) ==
    /\ ChkP(Len(img) > 0 /\ Len(img) % PAGE = 0, {"C02"}, "whole-pages")
    /\ ChkP(\A k \in 0..(NPages(img) - 1) : PageValid(img, k), {"C02"}, "page-checksum")
    /\ ChkP(HeaderOk(img), {"C02"}, "file-header")
    /\ ChkP(xml.wf = 1, {"C02", "C04"}, "xml-not-well-formed")
    /\ ChkP(xml.root.ns = E57NS /\ xml.root.name = "e57Root" /\ AttrS(xml.root, "type") = "Structure", {"C02"}, "xml-root")
    /\ ChkP(SchemaOkAt("e57Root", xml.root), {"C02", "C04"}, "xml-element-not-in-the-E57-schema:" \o SchemaBadAt("e57Root", xml.root))
    /\ \E L \in {Payload(img)} :
         /\ \E d3 \in {Data3D(xml)} :
              /\ ChkP(Len(d3) = Len(sc.pcs), {"C01"}, "number-of-point-clouds")
              /\ Len(d3) = Len(sc.pcs) => \A i \in 1..Len(d3) : PcOk(img, L, d3[i], sc.pcs[i], i)
         /\ \A i \in 1..Len(sc.blobs) :
              /\ ChkP(L64ToNat(sc.blobs[i].off) >= 0, {"C06"}, "blob-offset")
              /\ BlobOk(img, L, L64ToNat(sc.blobs[i].off), Len(sc.blobs[i].data), sc.blobs[i].data, "direct")
         /\ \E i2 \in {Images2D(xml)} :
              /\ ChkP(Len(i2) = Len(sc.images), {"C04"}, "number-of-images")
              /\ Len(i2) = Len(sc.images) => \A i \in 1..Len(i2) : ImageOk(img, L, i2[i], sc.images[i])
         /\ file' = [img |-> img, L |-> L, xml |-> xml]

T_Final == /\ IsEv("final")
           /\ Chk(sc.fin, "S:final-without-successful-finalize")
           /\ FileOk(E.bytes, E.xml)
           /\ UNCHANGED <<sc, res>>

\* ------------------------------------------------------------------ reading back (C01, C06, C04)
FileUnch == UNCHANGED <<sc, file>>
RNoPanic == ~Panicked
T_ROpen == /\ IsEv("r_open") /\ RNoPanic
           /\ ChkP(IsOk(E.res), {"C10", "C01", "C04", "C06", "C12", "C14", "C19", "C03"}, "finalized-file-does-not-open")
           /\ res' = E.res /\ FileUnch

OptEq(a, b) == a = b
B01(b) == IF b THEN 1 ELSE 0
HasAllNames(proto, names) == \A nm \in names : HasName(proto, nm)
NegF64(x) == <<x[1], x[2], x[3], (x[4] + 32768) % 65536>>
\* expected limits: the caller's complete override as given, None when reset, otherwise the declared type range
ExpIntensityLimits(pc) ==
    IF WasSet(pc.meta, "intensity_limits") THEN LastSet(pc.meta, "intensity_limits")
    ELSE IF HasName(pc.proto, "intensity")
         THEN LET r == RecOf(pc.proto, "intensity") mn == TypeLimit(r, "min") mx == TypeLimit(r, "max")
              IN IF LimitComplete2(mn, mx) THEN SomeV([min |-> mn, max |-> mx]) ELSE NoneV
         ELSE NoneV
IntensityLimitsSettled(pc) ==
    ~WasSet(pc.meta, "intensity_limits") \/ ~IsSome(LastSet(pc.meta, "intensity_limits"))
      \/ LimitComplete2(LastSet(pc.meta, "intensity_limits").some.min, LastSet(pc.meta, "intensity_limits").some.max)
ColorFields == <<"rmin", "rmax", "gmin", "gmax", "bmin", "bmax">>
ExpColorLimits(pc) ==
    IF WasSet(pc.meta, "color_limits") THEN LastSet(pc.meta, "color_limits")
    ELSE IF HasName(pc.proto, "colorRed") /\ HasName(pc.proto, "colorGreen") /\ HasName(pc.proto, "colorBlue")
         THEN LET r == RecOf(pc.proto, "colorRed") g == RecOf(pc.proto, "colorGreen") b == RecOf(pc.proto, "colorBlue")
                  cl == [rmin |-> TypeLimit(r, "min"), rmax |-> TypeLimit(r, "max"), gmin |-> TypeLimit(g, "min"),
                         gmax |-> TypeLimit(g, "max"), bmin |-> TypeLimit(b, "min"), bmax |-> TypeLimit(b, "max")]
              IN IF \A i \in 1..6 : IsSome(cl[ColorFields[i]]) THEN SomeV(cl) ELSE NoneV
         ELSE NoneV
ColorLimitsSettled(pc) ==
    ~WasSet(pc.meta, "color_limits") \/ ~IsSome(LastSet(pc.meta, "color_limits"))
      \/ \A i \in 1..6 : IsSome(LastSet(pc.meta, "color_limits").some[ColorFields[i]])

HasReals(pc) == Len(pc.reals) = Len(pc.pts)
ExpCart(pc) ==
    IF ~HasName(pc.proto, "cartesianX") THEN NoneV
    ELSE LET x == RealBounds(pc.reals, ColOf(pc.proto, "cartesianX")) y == RealBounds(pc.reals, ColOf(pc.proto, "cartesianY"))
             z == RealBounds(pc.reals, ColOf(pc.proto, "cartesianZ"))
         IN SomeV([xmin |-> x[1], xmax |-> x[2], ymin |-> y[1], ymax |-> y[2], zmin |-> z[1], zmax |-> z[2]])
ExpSph(pc) ==
    IF ~HasName(pc.proto, "sphericalAzimuth") THEN NoneV
    ELSE LET r == RealBounds(pc.reals, ColOf(pc.proto, "sphericalRange")) a == RealBounds(pc.reals, ColOf(pc.proto, "sphericalAzimuth"))
             e == RealBounds(pc.reals, ColOf(pc.proto, "sphericalElevation"))
         IN SomeV([rmin |-> r[1], rmax |-> r[2], emin |-> e[1], emax |-> e[2], astart |-> a[1], aend |-> a[2]])
IdxB(pc, n) == IF HasName(pc.proto, n) THEN IntBounds(pc.pts, ColOf(pc.proto, n)) ELSE <<NoneV, NoneV>>
ExpIdx(pc) ==
    IF ~(HasName(pc.proto, "rowIndex") \/ HasName(pc.proto, "columnIndex") \/ HasName(pc.proto, "returnIndex")) THEN NoneV
    ELSE SomeV([rowmin |-> IdxB(pc, "rowIndex")[1], rowmax |-> IdxB(pc, "rowIndex")[2],
                colmin |-> IdxB(pc, "columnIndex")[1], colmax |-> IdxB(pc, "columnIndex")[2],
                retmin |-> IdxB(pc, "returnIndex")[1], retmax |-> IdxB(pc, "returnIndex")[2]])
\* numeric comparison of optional bounds structures (field-wise, -0 = +0)
BoundsEq(a, b, fields) ==
    /\ IsSome(a) = IsSome(b)
    /\ IsSome(a) => \A i \in 1..Len(fields) : FEqOpt(a.some[fields[i]], b.some[fields[i]])
CartFields == <<"xmin", "xmax", "ymin", "ymax", "zmin", "zmax">>
SphFields  == <<"rmin", "rmax", "emin", "emax", "astart", "aend">>

RPcOk(rp, pc, pcnode) ==
    /\ ChkP(rp.records = NatToL64(Len(pc.pts)), {"C01", "C03"}, "reported-record-count")
    /\ ChkP(rp.proto = pc.proto, {"C01", "C04", "C03"}, "reported-prototype")
    /\ ChkP(rp.file_offset = AttrV(PointsEl(pcnode), "fileOffset").u, {"C04"}, "reported-file-offset")
    /\ ChkP(rp.guid = SomeV(pc.guid), {"C04", "C03"}, "pointcloud-guid")
    /\ \A i \in 1..Len(PcStringFields) :
          ChkP(rp[PcStringFields[i]] = LastSet(pc.meta, PcStringFields[i]), {"C04"}, "pointcloud-string:" \o PcStringFields[i])
    /\ \A i \in 1..Len(PcFloatFields) :
          ChkP(rp[PcFloatFields[i]] = LastSet(pc.meta, PcFloatFields[i]), {"C04"}, "pointcloud-float:" \o PcFloatFields[i])
    /\ \A i \in 1..Len(PcOtherFields) :
          ChkP(rp[PcOtherFields[i]] = LastSet(pc.meta, PcOtherFields[i]), {"C04"}, "pointcloud-field:" \o PcOtherFields[i])
    /\ ChkP(IntensityLimitsSettled(pc) => rp.intensity_limits = ExpIntensityLimits(pc), {"C14", "C04"}, "intensity-limits")
    /\ ChkP(ColorLimitsSettled(pc) => rp.color_limits = ExpColorLimits(pc), {"C14", "C04"}, "color-limits")
    /\ ChkP(IsSome(rp.cartesian_bounds) = HasName(pc.proto, "cartesianX"), {"C14"}, "cartesian-bounds-presence")
    /\ ChkP(IsSome(rp.spherical_bounds) = HasName(pc.proto, "sphericalAzimuth"), {"C14"}, "spherical-bounds-presence")
    /\ ChkP(rp.index_bounds = ExpIdx(pc), {"C14"}, "index-bounds")
    \* convenience accessors of the descriptor: has_* follow the prototype, get_cartesian_bounds prefers the stored
    \* Cartesian bounds and otherwise spans +-rangeMaximum on every axis
    /\ ChkP(rp.has = [cart |-> B01(HasAllNames(pc.proto, {"cartesianX", "cartesianY", "cartesianZ"})),
                      sph |-> B01(HasAllNames(pc.proto, {"sphericalRange", "sphericalAzimuth", "sphericalElevation"})),
                      color |-> B01(HasAllNames(pc.proto, {"colorRed", "colorGreen", "colorBlue"})),
                      intensity |-> B01(HasName(pc.proto, "intensity")),
                      rowcol |-> B01(HasAllNames(pc.proto, {"rowIndex", "columnIndex"})),
                      ret |-> B01(HasAllNames(pc.proto, {"returnCount", "returnIndex"})),
                      ts |-> B01(HasName(pc.proto, "timeStamp"))], {"C04"}, "has-accessors")
    /\ ChkP(IF IsSome(rp.cartesian_bounds) THEN rp.gcb = rp.cartesian_bounds
            ELSE IF IsSome(rp.spherical_bounds) /\ IsSome(rp.spherical_bounds.some.rmax)
                 THEN LET r == rp.spherical_bounds.some.rmax.some  n == NegF64(r)
                      IN BoundsEq(rp.gcb, SomeV([xmin |-> SomeV(n), xmax |-> SomeV(r), ymin |-> SomeV(n), ymax |-> SomeV(r), zmin |-> SomeV(n), zmax |-> SomeV(r)]), CartFields)
                 ELSE rp.gcb = NoneV, {"C14"}, "get_cartesian_bounds")
    /\ HasReals(pc) =>
          /\ ChkP(BoundsEq(rp.cartesian_bounds, ExpCart(pc), CartFields), {"C14"}, "cartesian-bounds")
          /\ ChkP(BoundsEq(rp.spherical_bounds, ExpSph(pc), SphFields), {"C14"}, "spherical-bounds")

\* an image as the reader must report it: one visual reference (the last one added) and one projection
RBlobOk(rb, data) == rb.len = NatToL64(Len(data))
RImOk(ri, im) ==
    /\ ChkP(ri.guid = SomeV(im.guid), {"C04"}, "image-guid")
    /\ \A i \in 1..Len(ImFields) :
          ChkP(ri[ImFields[i]] = LastSetPlain(im.meta, ImFields[i]), {"C04"}, "image-field:" \o ImFields[i])
    /\ \E vis \in {LastVisual(im.reps)} : \E prj \in {Projections(im.reps)} :
          /\ ChkP(IsSome(ri.visual) = (vis # <<>>), {"C04"}, "visual-reference-presence")
          /\ (IsSome(ri.visual) /\ vis # <<>>) =>
                /\ ChkP(ri.visual.some.props = vis[1].props, {"C04"}, "visual-reference-properties")
                /\ ChkP(ri.visual.some.blob.fmt = vis[1].fmt /\ RBlobOk(ri.visual.some.blob.blob, vis[1].data), {"C04", "C06"}, "visual-reference-blob")
                /\ ChkP(IsSome(ri.visual.some.mask) = IsSome(vis[1].mask), {"C04", "C06"}, "visual-reference-mask")
          /\ ChkP(IsSome(ri.projection) = (prj # <<>>), {"C04"}, "projection-presence")
          /\ (IsSome(ri.projection) /\ prj # <<>>) =>
                /\ ChkP(ri.projection.some.kind = prj[1].kind, {"C04"}, "projection-kind")
                /\ ChkP(ri.projection.some.props = prj[1].props, {"C04"}, "projection-properties")
                /\ ChkP(ri.projection.some.blob.fmt = prj[1].fmt /\ RBlobOk(ri.projection.some.blob.blob, prj[1].data), {"C04", "C06"}, "projection-blob")
                /\ ChkP(IsSome(ri.projection.some.mask) = IsSome(prj[1].mask), {"C04", "C06"}, "projection-mask")

T_RReport == /\ IsEv("r_report") /\ RNoPanic
             /\ ChkP(IsOk(E.res), {"C04"}, "report-failed")
             /\ ChkP(E.res.ok.guid = sc.guid, {"C04", "C03"}, "file-guid")
             /\ ChkP(E.res.ok.header.phys_length = NatToL64(Len(file.img)), {"C02"}, "reported-header-length")
             /\ ChkP(Len(E.res.ok.pcs) = Len(sc.pcs), {"C01", "C03"}, "reported-number-of-point-clouds")
             /\ Len(E.res.ok.pcs) = Len(sc.pcs) =>
                  \A i \in 1..Len(sc.pcs) : RPcOk(E.res.ok.pcs[i], sc.pcs[i], Data3D(file.xml)[i])
             /\ ChkP(Len(E.res.ok.images) = Len(sc.images), {"C04"}, "reported-number-of-images")
             /\ Len(E.res.ok.images) = Len(sc.images) => \A i \in 1..Len(sc.images) : RImOk(E.res.ok.images[i], sc.images[i])
             /\ ChkP(E.res.ok.coord = LastSet(sc.root, "coord"), {"C04"}, "coordinate-metadata")
             /\ ChkP(E.res.ok.creation = LastSet(sc.root, "creation"), {"C04"}, "creation-date-time")
             /\ ChkP(~sc.custom => E.res.ok.ext = sc.exts, {"C04"}, "registered-extensions")
             /\ ChkP(E.res.ok.format = "ASTM E57 3D Imaging Data File", {"C04"}, "format-name")
             /\ res' = E.res /\ FileUnch

T_RRaw == /\ IsEv("r_raw") /\ RNoPanic
          /\ ChkP(IsOk(E.res), {"C01", "C12", "C03"}, "raw-read-failed")
          /\ IsOk(E.res) =>
               /\ ChkP(E.res.end = 1 /\ Len(E.res.ok) = Len(sc.pcs[E.pc].pts), {"C01", "C12", "C03"}, "number-of-points-read")
               /\ ChkP(E.res.ok = sc.pcs[E.pc].pts, {"C01", "C12", "C03"}, "points-read-differ")
          /\ res' = E.res /\ FileUnch

AllBlobs == sc.blobs
T_RBlob == /\ IsEv("r_blob") /\ RNoPanic
           /\ ChkP(IsOk(E.res), {"C06"}, "blob-read-failed")
           /\ IsOk(E.res) =>
                /\ ChkP(E.res.ok.n = E.len /\ NatToL64(Len(E.res.ok.b)) = E.len, {"C06"}, "blob-read-length")
                /\ \E b \in {BlobAt(file.img, file.L, L64ToNat(E.off), L64ToNat(E.len))} :
                     /\ ChkP(b.ok, {"C06"}, "blob-descriptor-does-not-designate-a-blob")
                     /\ b.ok => ChkP(E.res.ok.b = b.data, {"C06"}, "blob-read-bytes")
           /\ res' = E.res /\ FileUnch

T_RXml == /\ IsEv("r_xml") /\ RNoPanic
          /\ ChkP(IsOk(E.res) /\ E.res.ok = XmlBytes(file.img, file.L), {"C04"}, "xml-returned-differs-from-file")
          /\ res' = E.res /\ FileUnch

\* ------------------------------------------------------------------ the queue reader, step by step (C03, C01, C12)
\* The harness drives QueueReader::new / advance / pop_point on one compressed-vector section under several schedules
\* (refill only when empty like the iterators, all packets first, random mixtures) and records the number of complete
\* points available after every step.  The packets and their stream sizes are taken from the file by the independent
\* decoder; QueueLayer says what the queues must hold after each packet; values are the next ones of their streams.
PacketList(L, pos, secEnd, nrec) == PacketListOf(L, pos, secEnd, nrec)
QWidths(xp) == QTup(LAMBDA i : Width(xp[i]), 1, Len(xp))
QUnch == UNCHANGED <<sc, file, res>>
T_QNew ==
    /\ IsEv("q_new") /\ RNoPanic
    /\ \E pcn \in {Data3D(file.xml)[E.pc]} : \E xp \in {XProto(pcn)} : \E off \in {XOffset(pcn)} :
       \E cv \in {CvAt(file.img, file.L, off, Len(xp))} :
         /\ Chk(cv.ok, "S:queue-reader-on-a-malformed-section")
         /\ \E w \in {QWidths(xp)} :
              /\ ChkP(IsOk(E.res) <=> QNewOk(w), {"C03", "C09"}, "queue-reader-construction")
              /\ LET lp == Phys2Log(off)
                 IN qs' = [live |-> IsOk(E.res), q |-> QNew(w), proto |-> xp, streams |-> cv.streams,
                           pkts |-> PacketList(file.L, Phys2Log(U64Small(file.L, lp + 16)), lp + U64Small(file.L, lp + 8), Len(xp))]
    /\ QUnch
T_QAdvance ==
    /\ IsEv("q_advance") /\ RNoPanic
    /\ Chk(qs.live /\ qs.q.seen < Len(qs.pkts), "S:advance-without-a-packet")
    /\ ChkP(IsOk(E.res), {"C03", "C01"}, "advance-failed-on-a-well-formed-packet")
    /\ \E nq \in {QAdvance(qs.q, qs.pkts[qs.q.seen + 1], QInf)} :
         /\ ChkP(IsOk(E.res) => E.avail = QAvail(nq), {"C03", "C01"}, "points-available-after-advance")
         \* cost model bound to the code: the bytes this advance moved are exactly the model's (hook: work counter)
         /\ ("work" \in DOMAIN E /\ IsOk(E.res)) => ChkP(E.work = nq.work, {"C09", "C03"}, "bytes-moved-by-advance-differ-from-the-cost-model")
         /\ Chk(QWellFormed(nq), "S:queue-model-ill-formed")
         /\ qs' = [qs EXCEPT !.q = nq]
    /\ QUnch
T_QPop ==
    /\ IsEv("q_pop") /\ RNoPanic
    /\ Chk(qs.live /\ QAvail(qs.q) >= 1, "S:pop-without-a-point")
    /\ ChkP(IsOk(E.res), {"C03", "C01"}, "pop-failed-although-a-point-is-available")
    /\ IsOk(E.res) => \A i \in 1..Len(qs.proto) :
          ChkP(ValKind(E.res.ok[i]) = qs.proto[i].k /\ ValLimbs(E.res.ok[i]) = StoredValue(qs.proto[i], qs.streams[i], qs.q.popped),
               {"C03", "C12", "C01"}, "popped-value-is-not-the-next-value-of-its-stream")
    /\ \E nq \in {QPop(qs.q)} :
         /\ ChkP(E.avail = QAvail(nq), {"C03", "C01"}, "points-available-after-pop")
         /\ qs' = [qs EXCEPT !.q = nq]
    /\ QUnch

ENext == \/ T_Reset \/ T_Panic \/ T_Scene \/ T_RHints \/ T_RSimpleCount \/ T_WNew \/ T_WCoord \/ T_WCreation \/ T_WExt \/ T_WBlob
         \/ T_PcNew \/ T_PcSet \/ T_PcPoints \/ T_PcPoint \/ T_PcFinalize \/ T_PcDrop \/ T_PcFinalizeAgain \/ T_ImFinalizeAgain
         \/ T_ImNew \/ T_ImSet \/ T_ImAdd \/ T_ImFinalize \/ T_ImDrop
         \/ T_WFinalize \/ T_Final \/ T_BigReadback
         \/ T_ROpen \/ T_RReport \/ T_RRaw \/ T_RBlob \/ T_RXml
TNext == (ENext /\ UNCHANGED qs) \/ T_QNew \/ T_QAdvance \/ T_QPop

TSpec == TInit /\ [][TNext]_<<evars, l, qs>>
=============================================================================
