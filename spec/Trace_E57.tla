------------------------------ MODULE Trace_E57 ------------------------------
(***************************************************************************)
(* Trace validation of file-level executions (writer programs followed by  *)
(* reader operations) against E57Spec, with the independent decoder        *)
(* E57Format as judge of the bytes the real writer produced.               *)
(* Tags: P:Cxx:... property-tier predicate of property Cxx; S:... strict.  *)
(***************************************************************************)
EXTENDS E57Spec, TraceBase

TInit == EInit /\ l = 1 /\ TLCSet(1, <<0, "none">>)

E == Rec[l]
\* a call that panicked: the content handed to the writer was not stored, whatever property the
\* run was exploring; the run ends there (the harness stops the program)
Panicked == "panic" \in DOMAIN E.res
WriterPids == {"C10", "C01", "C04", "C06", "C12", "C14", "C19"}
ReaderPids == {"C08", "C01", "C03", "C05", "C06", "C17"}
NoPanic == ~Panicked
WriterEvents == {"w_new", "w_ext", "w_blob", "pc_new", "pc_point", "pc_finalize", "im_new", "im_add", "im_finalize", "w_finalize"}
T_Panic == /\ l <= Len(Rec) /\ "res" \in DOMAIN E /\ Panicked /\ l' = l + 1
           /\ ChkP(FALSE, IF E.ev \in WriterEvents THEN WriterPids ELSE ReaderPids, "call-panicked:" \o E.ev)
           /\ sc' = [sc EXCEPT !.dead = TRUE] /\ UNCHANGED <<file, res>>

T_Reset == IsEv("reset") /\ sc' = EmptyScene /\ file' = [img |-> <<>>, L |-> <<>>, xml |-> <<>>] /\ res' = Ok(0)

T_WNew == IsEv("w_new") /\ NoPanic /\ W_New(E.guid, E.res)
T_WCoord == IsEv("w_coord") /\ W_SetRoot("coord", E.v)
T_WCreation == IsEv("w_creation") /\ W_SetRoot("creation", E.v)
T_WExt == IsEv("w_ext") /\ NoPanic
          /\ ChkP(ENABLED W_Ext(E.ns, E.url, E.nameok = 1, E.res), {"C10"}, "extension-acceptance")
          /\ W_Ext(E.ns, E.url, E.nameok = 1, E.res)

T_WBlob == /\ IsEv("w_blob") /\ NoPanic
           /\ ChkP(IsOk(E.res), {"C10", "C06"}, "valid-call-rejected")
           /\ ChkP(E.res.ok.len = NatToL64(Len(E.b)), {"C06"}, "blob-descriptor-length")
           /\ W_Blob(E.b, E.res)

T_PcNew == /\ IsEv("pc_new") /\ NoPanic
           /\ \E v \in {ProtoVerdict(E.proto, sc.exts, E.namesok = 1)} :
                /\ ChkP(v = "ok" => IsOk(E.res), {"C01"}, "valid-prototype-rejected")
                /\ ChkP(v = "err" => IsErr(E.res), {"C10"}, "invalid-prototype-accepted")
           /\ PC_New(E.guid, E.proto, E.res)
T_PcSet == IsEv("pc_set") /\ PC_Set(E.f, E.v)
T_PcPoints == /\ IsEv("pc_points")
              /\ ChkP(\A k \in 1..Len(E.pts) : PointFits(sc.pc.proto, E.pts[k]), {"C10"}, "unrepresentable-value-accepted")
              /\ PC_Points(E.pts)
T_PcPoint == /\ IsEv("pc_point") /\ NoPanic
             /\ Chk(IsErr(E.res), "S:single-point-event-must-be-a-rejection")
             /\ ChkP(~PointFits(sc.pc.proto, E.vals), {"C01"}, "valid-point-rejected")
             /\ PC_PointRejected(E.res)
T_PcFinalize == IsEv("pc_finalize") /\ NoPanic /\ ChkP(IsOk(E.res), {"C10", "C01"}, "valid-call-rejected") /\ PC_Finalize(E.res)
T_PcDrop == IsEv("pc_drop") /\ PC_Drop

T_ImNew == IsEv("im_new") /\ NoPanic /\ ChkP(IsOk(E.res), {"C10"}, "valid-call-rejected") /\ IM_New(E.guid, E.res)
T_ImSet == IsEv("im_set") /\ IM_Set(E.f, E.v)
T_ImAdd == /\ IsEv("im_add") /\ NoPanic
           /\ \E rep \in {[kind |-> E.kind, fmt |-> E.fmt, data |-> E.b, mask |-> E.mask, props |-> E.props]} :
                /\ ChkP(ENABLED IM_Add(rep, E.res), {"C10"}, "second-projection-accepted")
                /\ ChkP((~IsProjection(E.kind) \/ ~HasProjection(sc.im.reps)) => IsOk(E.res), {"C10", "C06"}, "valid-call-rejected")
                /\ IM_Add(rep, E.res)
T_ImFinalize == /\ IsEv("im_finalize") /\ NoPanic
                /\ ChkP(ENABLED IM_Finalize(E.res), {"C10"}, "empty-image-accepted")
                /\ ChkP(sc.im.reps # <<>> => IsOk(E.res), {"C10"}, "valid-call-rejected")
                /\ IM_Finalize(E.res)
T_ImDrop == IsEv("im_drop") /\ IM_Drop

T_WFinalize == /\ IsEv("w_finalize") /\ NoPanic
               /\ ChkP(ENABLED W_Finalize(E.res), {"C10"}, "empty-guid-accepted")
               /\ ChkP((sc.guid # "" /\ ~sc.dead /\ ~E.custom) => IsOk(E.res), {"C10", "C01", "C04", "C06"}, "valid-call-rejected")
               /\ W_Finalize(E.res)

\* ------------------------------------------------------------------ the finalized file (C02, C01, C06)
PcOk(img, L, pcnode, pc, i) ==
    /\ ChkP(PcNodeShapeOk(pcnode), {"C02"}, "data3D-entry-shape")
    /\ ChkP(XCount(pcnode) = NatToL64(Len(pc.pts)), {"C01"}, "record-count")
    /\ \E xp \in {XProto(pcnode)} :
         /\ ChkP(xp = pc.proto, {"C01"}, "prototype-differs")
         /\ \E cv \in {CvAt(img, L, XOffset(pcnode), Len(xp))} :
              /\ ChkP(cv.ok, {"C02"}, "compressed-vector-section:" \o cv.why)
              /\ cv.ok => \A j \in 1..Len(xp) :
                            ChkP(StreamEncodes(xp[j], cv.streams[j], pc.pts, j), {"C01", "C12"}, "stream-does-not-encode-the-points")

BlobOk(img, L, off, len, data, tag) ==
    \E b \in {BlobAt(img, L, off, len)} :
        /\ ChkP(b.ok, {"C02"}, "blob-section:" \o b.why)
        /\ b.ok => /\ ChkP(b.data = data, {"C06"}, "blob-bytes-differ")
                   /\ ChkP(b.reserved0 /\ b.padzero, {"C02"}, "blob-reserved-or-padding-not-zero")
                   /\ ChkP(b.seclen = BlobStdLen(len), {"C02"}, "blob-section-length-field")

RepOk(img, L, repnode, rep) ==
    /\ ChkP(RepKind(repnode.name) = rep.kind, {"C04"}, "image-representation-kind")
    /\ ChkP(HasKid(repnode, "jpegImage") \/ HasKid(repnode, "pngImage"), {"C02"}, "image-blob-missing")
    /\ (HasKid(repnode, "jpegImage") \/ HasKid(repnode, "pngImage")) =>
         /\ ChkP(RepFmt(repnode) = rep.fmt, {"C04"}, "image-format")
         /\ ChkP(BlobNodeOk(RepImageNode(repnode)), {"C02"}, "blob-descriptor-shape")
         /\ BlobNodeOk(RepImageNode(repnode)) =>
              /\ ChkP(AttrV(RepImageNode(repnode), "length").i = Len(rep.data), {"C06"}, "image-blob-length")
              /\ BlobOk(img, L, AttrV(RepImageNode(repnode), "fileOffset").i, Len(rep.data), rep.data, "image")
    /\ ChkP(IsSome(rep.mask) <=> HasKid(repnode, "imageMask"), {"C06"}, "mask-presence")
    /\ (IsSome(rep.mask) /\ HasKid(repnode, "imageMask")) =>
         /\ ChkP(BlobNodeOk(Kid(repnode, "imageMask")), {"C02"}, "blob-descriptor-shape")
         /\ BlobNodeOk(Kid(repnode, "imageMask")) =>
              /\ ChkP(AttrV(Kid(repnode, "imageMask"), "length").i = Len(rep.mask.some), {"C06"}, "mask-length")
              /\ BlobOk(img, L, AttrV(Kid(repnode, "imageMask"), "fileOffset").i, Len(rep.mask.some), rep.mask.some, "mask")

\* the writer keeps one visual reference and one projection per image (a later visual replaces the earlier)
LastVisual(reps) == LET vs == SelectSeq(reps, LAMBDA r : r.kind = "visual") IN IF vs = <<>> THEN <<>> ELSE <<vs[Len(vs)]>>
Projections(reps) == SelectSeq(reps, LAMBDA r : IsProjection(r.kind))
ExpectedReps(reps) == LastVisual(reps) \o Projections(reps)

ImageOk(img, L, imnode, im) ==
    \E rn \in {RepNodes(imnode)} : \E er \in {ExpectedReps(im.reps)} :
        /\ ChkP(Len(rn) = Len(er), {"C04"}, "image-representations-count")
        /\ Len(rn) = Len(er) => \A j \in 1..Len(rn) : RepOk(img, L, rn[j], er[j])

FileOk(img, xml) ==
    /\ ChkP(Len(img) > 0 /\ Len(img) % PAGE = 0, {"C02"}, "whole-pages")
    /\ ChkP(\A k \in 0..(NPages(img) - 1) : PageValid(img, k), {"C02"}, "page-checksum")
    /\ ChkP(HeaderOk(img), {"C02"}, "file-header")
    /\ ChkP(xml.wf = 1, {"C02"}, "xml-not-well-formed")
    /\ ChkP(xml.root.ns = E57NS /\ xml.root.name = "e57Root" /\ AttrS(xml.root, "type") = "Structure", {"C02"}, "xml-root")
    /\ \E L \in {Payload(img)} :
         /\ \E d3 \in {Data3D(xml)} :
              /\ ChkP(Len(d3) = Len(sc.pcs), {"C01"}, "number-of-point-clouds")
              /\ Len(d3) = Len(sc.pcs) => \A i \in 1..Len(d3) : PcOk(img, L, d3[i], sc.pcs[i], i)
         /\ \A i \in 1..Len(sc.blobs) :
              /\ ChkP(L64ToNat(sc.blobs[i].off) >= 0, {"C06"}, "blob-offset")
              /\ BlobOk(img, L, L64ToNat(sc.blobs[i].off), Len(sc.blobs[i].data), sc.blobs[i].data, "direct")
         /\ \E i2 \in {Images2D(xml)} :
              /\ ChkP(Len(i2) = Len(sc.images), {"C04"}, "number-of-images")
              /\ Len(i2) = Len(sc.images) => \A i \in 1..Len(i2) : ImageOk(img, L, i2[i], sc.images[i])
         /\ file' = [img |-> img, L |-> L, xml |-> xml]

T_Final == /\ IsEv("final")
           /\ Chk(sc.fin, "S:final-without-successful-finalize")
           /\ FileOk(E.bytes, E.xml)
           /\ UNCHANGED <<sc, res>>

\* ------------------------------------------------------------------ reading back (C01, C06, C04)
FileUnch == UNCHANGED <<sc, file>>
RNoPanic == ~Panicked
T_ROpen == /\ IsEv("r_open") /\ RNoPanic
           /\ ChkP(IsOk(E.res), {"C10", "C01", "C04", "C06", "C12", "C14", "C19"}, "finalized-file-does-not-open")
           /\ res' = E.res /\ FileUnch

RPcOk(rp, pc, pcnode) ==
    /\ ChkP(rp.records = NatToL64(Len(pc.pts)), {"C01"}, "reported-record-count")
    /\ ChkP(rp.proto = pc.proto, {"C01"}, "reported-prototype")
    /\ ChkP(rp.file_offset = AttrV(PointsEl(pcnode), "fileOffset").u, {"C04"}, "reported-file-offset")
    /\ ChkP(rp.guid = SomeV(pc.guid), {"C04"}, "pointcloud-guid")

T_RReport == /\ IsEv("r_report") /\ RNoPanic
             /\ ChkP(IsOk(E.res), {"C04"}, "report-failed")
             /\ ChkP(E.res.ok.guid = sc.guid, {"C04"}, "file-guid")
             /\ ChkP(E.res.ok.header.phys_length = NatToL64(Len(file.img)), {"C02"}, "reported-header-length")
             /\ ChkP(Len(E.res.ok.pcs) = Len(sc.pcs), {"C01"}, "reported-number-of-point-clouds")
             /\ Len(E.res.ok.pcs) = Len(sc.pcs) =>
                  \A i \in 1..Len(sc.pcs) : RPcOk(E.res.ok.pcs[i], sc.pcs[i], Data3D(file.xml)[i])
             /\ ChkP(Len(E.res.ok.images) = Len(sc.images), {"C04"}, "reported-number-of-images")
             /\ res' = E.res /\ FileUnch

T_RRaw == /\ IsEv("r_raw") /\ RNoPanic
          /\ ChkP(IsOk(E.res), {"C01", "C12"}, "raw-read-failed")
          /\ IsOk(E.res) =>
               /\ ChkP(E.res.end = 1 /\ Len(E.res.ok) = Len(sc.pcs[E.pc].pts), {"C01", "C12"}, "number-of-points-read")
               /\ ChkP(E.res.ok = sc.pcs[E.pc].pts, {"C01", "C12"}, "points-read-differ")
          /\ res' = E.res /\ FileUnch

AllBlobs == sc.blobs
T_RBlob == /\ IsEv("r_blob") /\ RNoPanic
           /\ ChkP(IsOk(E.res), {"C06"}, "blob-read-failed")
           /\ IsOk(E.res) =>
                /\ ChkP(E.res.ok.n = E.len /\ NatToL64(Len(E.res.ok.b)) = E.len, {"C06"}, "blob-read-length")
                /\ \E b \in {BlobAt(file.img, file.L, L64ToNat(E.off), L64ToNat(E.len))} :
                     /\ ChkP(b.ok, {"C06"}, "blob-descriptor-does-not-designate-a-blob")
                     /\ b.ok => ChkP(E.res.ok.b = b.data, {"C06"}, "blob-read-bytes")
           /\ res' = E.res /\ FileUnch

T_RXml == /\ IsEv("r_xml") /\ RNoPanic
          /\ ChkP(IsOk(E.res) /\ E.res.ok = XmlBytes(file.img, file.L), {"C04"}, "xml-returned-differs-from-file")
          /\ res' = E.res /\ FileUnch

TNext == \/ T_Reset \/ T_Panic \/ T_WNew \/ T_WCoord \/ T_WCreation \/ T_WExt \/ T_WBlob
         \/ T_PcNew \/ T_PcSet \/ T_PcPoints \/ T_PcPoint \/ T_PcFinalize \/ T_PcDrop
         \/ T_ImNew \/ T_ImSet \/ T_ImAdd \/ T_ImFinalize \/ T_ImDrop
         \/ T_WFinalize \/ T_Final
         \/ T_ROpen \/ T_RReport \/ T_RRaw \/ T_RBlob \/ T_RXml

TSpec == TInit /\ [][TNext]_<<evars, l>>
=============================================================================
