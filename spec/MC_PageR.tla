------------------------------- MODULE MC_PageR -------------------------------
(***************************************************************************)
(* Bounded instance of PageSpec (reader side): every history of            *)
(* seek_physical / read(n) / align to depth MaxDepth over small images,    *)
(* with any subset of pages altered after sealing (C07) -- at the real     *)
(* page size, every edge exported for replay on the real PagedReader.      *)
(***************************************************************************)
EXTENDS PageSpec, TLC, Json, FiniteSets

CONSTANTS MaxDepth, MaxCorrupt, Export, Merge

VARIABLES last, pimg, cpages, iid, cdesc

ImgLens == <<1, 1019, 1020, 1021, 2040, 2500, 3060>>
ImgOf(i) == Flushed(WriteAll(WInit, PatData(i, ImgLens[i])))[1]

\* alteration sites inside a page: first payload byte, a middle one, last payload byte, first and last checksum byte
Sites == {0, 511, 1019, 1020, 1023}
Alter(d, k, site) == Over(d, k * PAGE + site, <<(d[k * PAGE + site + 1] + 1) % 256>>)
RECURSIVE AlterAll(_, _)
AlterAll(d, cs) == IF cs = <<>> THEN d ELSE AlterAll(Alter(d, cs[1][1], cs[1][2]), Tail(cs))

SeekTargets == {0, 1, 3, 4, 48, 1016, 1019, 1024, 1025, 1027, 2047, 2048, 2052, 3071, 3072, 4096}
ReadSizes   == {0, 1, 4, 48, 1019, 1020, 1021, 3000}

Rec(a) == last' = Append(last, a)

MCInit ==
    /\ ws = WInit /\ lg = <<>> /\ wfail = FALSE /\ fp = FALSE /\ res = Ok(0)
    /\ last = <<>>
    /\ iid \in 1..Len(ImgLens)
    /\ pimg = ImgOf(iid)
    /\ \E pgs \in {s \in SUBSET (0..(NPages(pimg) - 1)) : Cardinality(s) <= MaxCorrupt} :
         \E site \in Sites :
            /\ cpages = pgs
            /\ cdesc = SetToSortSeq({<<k, site>> : k \in pgs}, LAMBDA a, b : a[1] < b[1])
            /\ img = AlterAll(pimg, cdesc)
    /\ rs = RInit

MCNext ==
    /\ Len(last) < MaxDepth
    /\ UNCHANGED <<pimg, cpages, iid, cdesc>>
    /\ \/ \E off \in {o \in SeekTargets : o <= Len(img)} :
            R_Seek(off) /\ Rec([op |-> "rseek", off |-> off])
       \/ \E n \in ReadSizes : R_Read(n) /\ Rec([op |-> "rread", n |-> n])
       \/ R_Align /\ Rec([op |-> "ralign"])

MCSpec == MCInit /\ [][MCNext]_<<pvars, last, pimg, cpages, iid, cdesc>>
\* Merge = TRUE: states reached by different histories are merged (first history kept);
\* Merge = FALSE: the full tree of histories is enumerated
MCView == IF Merge THEN <<img, rs, Len(last)>> ELSE <<img, rs, last>>

\* cache coherence with the ground truth of this model: the cached page is never an altered one
MC_ReadCache == rs[2] >= 0 => (rs[2] < NPages(img) /\ rs[2] \notin cpages /\ rs[3] = PageOf(img, rs[2]))

\* ---- C11 (read side) and C07 as action properties --------------------------------
IsRead == Len(last') > Len(last) /\ last'[Len(last')].op = "rread"
CurPage == rs[1] \div P
\* a successful read returns the logical stream of the PRISTINE image at the cursor and
\* advances the cursor by what it returned; it never touches an altered page
ReadReturnsLogical ==
    (IsRead /\ ~IsErr(res')) =>
        /\ res'.ok = SubSeq(pimg, CurPage * PAGE + (rs[1] % P) + 1, CurPage * PAGE + (rs[1] % P) + Len(res'.ok))
        /\ (rs[1] % P) + Len(res'.ok) <= P
        /\ rs'[1] = rs[1] + Len(res'.ok)
        /\ (Len(res'.ok) > 0 => CurPage \notin cpages)
        /\ (CurPage < NPages(img) /\ last'[Len(last')].n > 0) => Len(res'.ok) > 0
\* a read fails exactly when it needs an altered page
ReadFailsIffAltered ==
    IsRead => (IsErr(res') <=> (CurPage < NPages(img) /\ CurPage \in cpages))
\* C17 at the page level: a read returns what a reader with an empty cache would return at that cursor
ReadAsFresh == IsRead => res' = RRead(img, <<rs[1], -1, rs[3]>>, last'[Len(last')].n)[2]
PropFresh   == [][ReadAsFresh]_<<pvars, last>>
PropRead    == [][ReadReturnsLogical]_<<pvars, last>>
PropVerdict == [][ReadFailsIffAltered]_<<pvars, last>>

\* seek translates physical to logical by skipping 4 checksum bytes per page
IsSeek == Len(last') > Len(last) /\ last'[Len(last')].op = "rseek"
SeekTranslates ==
    (IsSeek /\ ~IsErr(res') /\ (last'[Len(last')].off % PAGE) < P) =>
        res'.ok = Phys2Log(last'[Len(last')].off) /\ Log2Phys(res'.ok) = last'[Len(last')].off
PropSeek == [][SeekTranslates]_<<pvars, last>>

\* observer: what a following read(7) would give, and -- to expose the hidden cache state (tag and
\* buffer) -- for every page k what "seek to its start; read the whole payload" would give, each
\* probe starting from the state after the edge; a full page is summarised by its checksum bytes
\* (by C11_ReadCache and the definition of cpages, a probe of page k succeeds iff the page is cached
\*  or unaltered, and then returns the page's payload, summarised by its stored checksum bytes)
ProbeOf(k) == IF rs'[2] = k \/ k \notin cpages THEN Ok(SubSeq(img', k * PAGE + P + 1, (k + 1) * PAGE)) ELSE Err
RECURSIVE Probes(_)
Probes(k) == IF k >= NPages(img') THEN <<>> ELSE <<ProbeOf(k)>> \o Probes(k + 1)
ObsR == [next |-> RRead(img', rs', 7)[2], pages |-> Probes(0)]
Edge == IF Export
        THEN PrintT("EDGE " \o ToJson([img |-> iid, len |-> ImgLens[iid], alter |-> cdesc,
                                       h |-> last', res |-> res', obs |-> ObsR]))
        ELSE TRUE
=============================================================================
