---------------------------- MODULE Trace_Untrusted ----------------------------
(***************************************************************************)
(* C08 / C09: reading untrusted bytes.  One event per mutated file with    *)
(* the outcome and the resource use of every reading entry point.          *)
(* Permitted outcomes: a value or an error -- never a panic, an abort, a   *)
(* timeout.  Resource model (per call): device bytes read are bounded by   *)
(* twice the file size plus two pages; peak heap allocation is bounded by  *)
(* 512 B x (n + 8) x size + 64 MiB where n is the prototype length the     *)
(* file declares (a stream byte can decode into eight one-bit values);     *)
(* the bytes moved by the byte-stream buffers in one call (work counter    *)
(* hook) are bounded by 6 x size + 4 KiB: QueueCostSpec.WorkLinear gives   *)
(* fed + 8 n per packet, a packet has at least 6 + 2 n bytes;              *)
(* an iterator never yields more points than the declared record count.    *)
(***************************************************************************)
EXTENDS TraceBase, Integers
VARIABLE n
E == Rec[l]
TInit == n = 0 /\ l = 1 /\ TLCSet(1, <<0, "none">>)
T_Reset == IsEv("reset") /\ UNCHANGED n

LeU(a, b) == IF a[4] # b[4] THEN a[4] < b[4] ELSE IF a[3] # b[3] THEN a[3] < b[3] ELSE IF a[2] # b[2] THEN a[2] < b[2] ELSE a[1] <= b[1]
KiB(x) == (x + 1023) \div 1024
\* (n + 8) * size / 2 KiB + 64 MiB, in KiB, with sizes in KiB to stay inside 32-bit integers
AllocBoundKiB(np, size) == ((np + 8) * KiB(size)) * 512 + 65536
OpOk(o) ==
    /\ ChkP(o.out # "panic", {"C08"}, "panic:" \o o.op)
    /\ ChkP(o.out # "overrun", {"C09"}, "iterator-yields-more-points-than-the-record-count:" \o o.op)
    /\ ChkP(o.out \in {"ok", "err", "panic", "overrun"}, {"C08"}, "unexpected-outcome:" \o o.op)
    /\ ChkP(o.devread <= 2 * E.size + 2048, {"C09"}, "device-bytes-read-in-one-call-exceed-the-bound:" \o o.op)
    /\ ChkP(KiB(o.alloc) <= AllocBoundKiB(E.nproto, E.size), {"C09"}, "peak-allocation-in-one-call-exceeds-the-bound:" \o o.op)
    \* cost (QueueCostSpec.WorkLinear summed over one call): every stream byte is moved once, incomplete values once per packet
    /\ ("work" \in DOMAIN o) => ChkP(o.work <= 6 * E.size + 4096, {"C09"}, "bytes-moved-in-one-call-exceed-the-bound:" \o o.op)
    \* C06 on untrusted input: a blob extraction that reports success delivered exactly the descriptor's length
    /\ ("got" \in DOMAIN o /\ "some" \in DOMAIN o.got) => ChkP(o.got.some = o.len, {"C06"}, "blob-extraction-ok-with-another-length-than-the-descriptor:" \o o.op)
    /\ ("yielded" \in DOMAIN o) => ChkP(LeU(o.yielded, o.records), {"C09"}, "iterator-yields-more-points-than-the-record-count:" \o o.op)
T_Case == /\ IsEv("untrusted")
          /\ \A i \in 1..Len(E.ops) : OpOk(E.ops[i])
          /\ n' = n + 1
T_Abort == /\ IsEv("untrusted_abort")
           /\ ChkP(E.kind # "abort", {"C08"}, "process-aborted")
           /\ ChkP(E.kind # "timeout", {"C09"}, "call-did-not-terminate-in-time")
           /\ ChkP(E.kind # "alloc_cap", {"C09"}, "allocation-not-bounded-by-the-input-size")
           /\ n' = n + 1
TNext == T_Reset \/ T_Case \/ T_Abort
TSpec == TInit /\ [][TNext]_<<n, l>>
=============================================================================
