-------------------------- MODULE PacketWriterSpec --------------------------
(***************************************************************************)
(* Design-level model of how the point-cloud writer cuts the points into   *)
(* data packets (src/pc_writer.rs: get_max_packet_points, add_point,       *)
(* write_buffer_to_disk, finalize), with the packet capacity scaled down   *)
(* (`Cap` stands for u16::MAX = 65535 bytes, `Margin` for the safety       *)
(* margin of 500 bytes) so that TLC can run every prototype of a few       *)
(* records with widths 0..MaxW against every number of points.             *)
(*                                                                         *)
(*   maxpp = ((Cap - (Hdr + 2n) - n - Margin) * 8) div (sum of widths)     *)
(*                                                                         *)
(* add_point buffers a point and writes a packet as soon as maxpp points   *)
(* are buffered; a packet takes min(maxpp, buffered) points into the bit   *)
(* streams and drains the FULL bytes of every stream; finalize writes      *)
(* packets until the buffer is empty and then one last packet with all     *)
(* remaining (partial) bytes.                                              *)
(*                                                                         *)
(* `Variant`:                                                              *)
(*   "unguarded"  the capacity arithmetic as first built: the subtraction  *)
(*                underflows for prototypes with too many records (panic   *)
(*                in checked builds) and maxpp = 0 is accepted (finalize   *)
(*                then never empties the buffer: defect D-23)              *)
(*   "asbuilt"    add_pointcloud refuses prototypes of which not even one  *)
(*                point fits into a packet                                 *)
(* TLC checks PacketFits, NothingLost, NoPanic and termination; all hold   *)
(* for "asbuilt"; "unguarded" violates NoPanic and Terminates.             *)
(***************************************************************************)
EXTENDS PacketLayer, FiniteSets

CONSTANTS Cap, Margin, Hdr,   \* scaled-down u16::MAX, safety margin, data packet header size
          Protos,             \* set of width tuples
          MaxPts,             \* points added: 0..MaxPts
          Variant

VARIABLES w,        \* widths of the prototype
          phase,    \* "adding" | "finalizing" | "done" | "refused" | "panicked"
          buffered, \* points in the point buffer
          bits,     \* per record: bits in its stream not yet written to a packet
          packets,  \* emitted packets: sequences of per-record byte counts
          added     \* points accepted so far
pvars == <<w, phase, buffered, bits, packets, added>>

SumT(f, i) == PSum(f, i)
Tup(Op(_), i, n) == PTup(Op, i, n)

N == Len(w)
Room == PRoom(N, Cap, Margin, Hdr)                 \* may be negative: an integer here, a usize in the code
MaxPP == PMaxPP(w, Cap, Margin, Hdr)

Init == \E p \in Protos :
          /\ w = p /\ buffered = 0 /\ packets = <<>> /\ added = 0
          /\ bits = Tup(LAMBDA i : 0, 1, Len(p))
          /\ LET room == Cap - (Hdr + 2 * Len(p)) - Len(p) - Margin
                 mpp  == IF SumT(p, 1) = 0 THEN 0 ELSE (room * 8) \div SumT(p, 1)
             IN phase = IF SumT(p, 1) = 0 THEN "refused"                           \* D-04: all records constant
                        ELSE IF room < 0 THEN (IF Variant = "unguarded" THEN "panicked" ELSE "refused")
                        ELSE IF mpp < 1 /\ Variant # "unguarded" THEN "refused"
                        ELSE "adding"

PadTo4(x) == x + ((4 - (x % 4)) % 4)
PacketLen(sizes) == PadTo4(Hdr + 2 * N + SumT(sizes, 1))

\* write_buffer_to_disk(last)
WriteBuffer(last) ==
    LET k == IF MaxPP < buffered THEN MaxPP ELSE buffered
        s == PStep(w, bits, k, last)
    IN /\ buffered' = buffered - k
       /\ bits' = s.bits
       /\ packets' = IF SumT(s.size, 1) > 0 THEN Append(packets, s.size) ELSE packets

AddPoint == /\ phase = "adding" /\ added < MaxPts
            /\ added' = added + 1
            /\ IF buffered + 1 >= MaxPP
               THEN \* the point is buffered, then a packet is written
                    LET b1 == buffered + 1
                        k  == IF MaxPP < b1 THEN MaxPP ELSE b1
                        s  == PStep(w, bits, k, FALSE)
                    IN /\ buffered' = b1 - k
                       /\ bits' = s.bits
                       /\ packets' = IF SumT(s.size, 1) > 0 THEN Append(packets, s.size) ELSE packets
               ELSE buffered' = buffered + 1 /\ UNCHANGED <<bits, packets>>
            /\ UNCHANGED <<w, phase>>
StartFinalize == phase = "adding" /\ phase' = "finalizing" /\ UNCHANGED <<w, buffered, bits, packets, added>>
\* while !buffer.is_empty() { write_buffer_to_disk(false) }
Drain == /\ phase = "finalizing" /\ buffered > 0
         /\ WriteBuffer(FALSE) /\ UNCHANGED <<w, phase, added>>
\* write_buffer_to_disk(true)
LastFlush == /\ phase = "finalizing" /\ buffered = 0
             /\ WriteBuffer(TRUE) /\ phase' = "done" /\ UNCHANGED <<w, added>>

Next == AddPoint \/ StartFinalize \/ Drain \/ LastFlush
Spec == Init /\ [][Next]_pvars /\ WF_pvars(Drain) /\ WF_pvars(LastFlush) /\ WF_pvars(StartFinalize)

\* ---- properties -------------------------------------------------------------------------
\* no packet is longer than the length field can say
PacketFits == \A i \in 1..Len(packets) : PacketLen(packets[i]) <= Cap
\* when the point cloud is finalized, every stream went out completely: ceil(added * width / 8) bytes per record
RECURSIVE StreamBytes(_, _)
StreamBytes(i, k) == IF k > Len(packets) THEN 0 ELSE packets[k][i] + StreamBytes(i, k + 1)
NothingLost == phase = "done" => \A i \in 1..N : StreamBytes(i, 1) = (added * w[i] + 7) \div 8
NoPanic == phase # "panicked"
\* the step-wise behaviour equals the closed form that Trace_E57 compares with the packets of real files
ClosedForm == phase = "done" => packets = PPackets(w, added, Cap, Margin, Hdr)
\* finalize returns
Terminates == (phase = "finalizing") ~> (phase = "done")
=============================================================================
