------------------------------ MODULE QueueLayer ------------------------------
(***************************************************************************)
(* The queue reader (src/queue_reader.rs) as pure operators on a record:   *)
(* it turns the data packets of one compressed-vector section into one     *)
(* FIFO queue of values per prototype record.                              *)
(*                                                                         *)
(*   q.w       widths (bits per value) of the records, 0..64               *)
(*   q.bits    per record: bits appended to its byte stream and not yet    *)
(*             turned into values (ByteStreamReadBuffer::available)        *)
(*   q.ql      per record: length of the value queue                       *)
(*   q.taken   per record: values ever pushed to the queue                 *)
(*   q.popped  points handed out (every queue has lost that many values)   *)
(*   q.seen    packets consumed                                            *)
(*   q.bytes   stream bytes consumed (for the memory bound)                *)
(*   q.work    bytes moved by the LAST advance: every stream whose record  *)
(*             occupies bits is re-assembled as (bytes not yet consumed)   *)
(*             + (bytes of the packet) -- ByteStreamReadBuffer::append;    *)
(*             the stream bytes of a zero-width record are discarded       *)
(*   q.moved   the sum of q.work over all advances (for the time bound)    *)
(*                                                                         *)
(* Values are identified by their index in the record's stream: the queue  *)
(* of record i holds the values number popped+1 .. popped+ql[i] of stream  *)
(* i; which numbers these are in bytes is E57Format's business.            *)
(*                                                                         *)
(* A packet is [t |-> "data", sizes |-> <<bytes per record>>] or           *)
(* [t |-> "index"] / [t |-> "ignored"].                                    *)
(*                                                                         *)
(* `fillcap` bounds how many values one advance may regenerate for a       *)
(* zero-width record; the code as built has no such bound (QInf).         *)
(***************************************************************************)
EXTENDS Naturals, Sequences

QInf == 1000000000   \* stands for usize::MAX

QMin2(a, b) == IF a < b THEN a ELSE b
RECURSIVE QMinOver(_, _, _)
\* minimum of f over the indices with sel TRUE, QInf when there is none
QMinOver(f, sel, i) == IF i > Len(f) THEN QInf
                       ELSE IF sel[i] THEN QMin2(f[i], QMinOver(f, sel, i + 1)) ELSE QMinOver(f, sel, i + 1)

\* Tuples (not functions) so that states compare equal to values read from traces
RECURSIVE QTup(_, _, _)
QTup(Op(_), i, n) == IF i > n THEN <<>> ELSE <<Op(i)>> \o QTup(Op, i + 1, n)

RECURSIVE QSum(_, _)
QSum(f, i) == IF i > Len(f) THEN 0 ELSE f[i] + QSum(f, i + 1)

QAllZero(w) == \A i \in 1..Len(w) : w[i] = 0

\* QueueReader::new : refuses prototypes in which no record occupies bits (the number of values
\* in a packet could never be known)
QNewOk(w) == ~QAllZero(w)
QNew(w) == [w |-> w, bits |-> QTup(LAMBDA i : 0, 1, Len(w)), ql |-> QTup(LAMBDA i : 0, 1, Len(w)),
            taken |-> QTup(LAMBDA i : 0, 1, Len(w)), popped |-> 0, seen |-> 0, bytes |-> 0, work |-> 0, moved |-> 0]

\* QueueReader::available : complete points across all queues
QAvail(q) == IF Len(q.w) = 0 THEN 0 ELSE QMinOver(q.ql, QTup(LAMBDA i : TRUE, 1, Len(q.w)), 1)

\* QueueReader::advance on a data packet: append every stream, unpack every complete value of the
\* records that occupy bits, then regenerate values of zero-width records up to the shortest of
\* the other queues (never shrinking)
\* bytes one append moves: what is left of the stream (whole bytes that still hold unconsumed bits) plus the new bytes
QHeldBytes(bits) == (bits + 7) \div 8
\* `buffered` says for which records the stream bytes are kept (as built: those that occupy bits)
QAdvanceDataB(q, sizes, fillcap, buffered) ==
    LET n    == Len(q.w)
        nb   == QTup(LAMBDA i : IF buffered[i] THEN q.bits[i] + 8 * sizes[i] ELSE 0, 1, n)
        wk   == QSum(QTup(LAMBDA i : IF buffered[i] THEN QHeldBytes(q.bits[i]) + sizes[i] ELSE 0, 1, n), 1)
        k    == QTup(LAMBDA i : IF q.w[i] = 0 THEN 0 ELSE nb[i] \div q.w[i], 1, n)
        ql1  == QTup(LAMBDA i : q.ql[i] + k[i], 1, n)
        m    == QMinOver(ql1, QTup(LAMBDA i : q.w[i] # 0, 1, n), 1)
        tgt(i) == QMin2(m, q.ql[i] + fillcap)
        ql2  == QTup(LAMBDA i : IF q.w[i] = 0 THEN (IF q.ql[i] < tgt(i) THEN tgt(i) ELSE q.ql[i]) ELSE ql1[i], 1, n)
    IN [q EXCEPT !.bits = QTup(LAMBDA i : nb[i] - k[i] * q.w[i], 1, n),
                 !.ql = ql2,
                 !.taken = QTup(LAMBDA i : q.taken[i] + (ql2[i] - q.ql[i]), 1, n),
                 !.seen = @ + 1,
                 !.bytes = @ + QSum(sizes, 1),
                 !.work = wk, !.moved = @ + wk]
QAdvanceData(q, sizes, fillcap) == QAdvanceDataB(q, sizes, fillcap, QTup(LAMBDA i : q.w[i] # 0, 1, Len(q.w)))
\* index and ignored packets are skipped
QAdvanceOther(q) == [q EXCEPT !.seen = @ + 1, !.work = 0]
QAdvance(q, pkt, fillcap) == IF pkt.t = "data" THEN QAdvanceData(q, pkt.sizes, fillcap) ELSE QAdvanceOther(q)

\* QueueReader::pop_point : one value from the head of every queue (callers ensure QAvail >= 1)
QPop(q) == [q EXCEPT !.ql = QTup(LAMBDA i : q.ql[i] - 1, 1, Len(q.w)), !.popped = @ + 1]

\* structural invariant of the representation
QWellFormed(q) ==
    /\ \A i \in 1..Len(q.w) : q.w[i] # 0 => q.bits[i] < q.w[i]
    /\ \A i \in 1..Len(q.w) : q.taken[i] = q.popped + q.ql[i]
=============================================================================
