------------------------------ MODULE CrashSpec ------------------------------
(***************************************************************************)
(* Design-level model of why an interrupted write is never mistaken for a  *)
(* complete file (C15).  The device is a sequence of pages; a page is      *)
(* abstracted to what the reader can tell about it:                        *)
(*    "none"  never written          "torn"  partly written (CRC invalid)  *)
(*    "data"  a sealed data/XML page "hdr0"  sealed placeholder header     *)
(*    "hdrF"  sealed final header (XML offset/length/file length filled)   *)
(* The writer issues whole-page writes in program order; a crash freezes   *)
(* the device after any prefix of the writes, the cut write being torn.    *)
(* The reader accepts iff page 0 is a sealed FINAL header and every page   *)
(* the header designates (the XML pages) is sealed data.                   *)
(*                                                                         *)
(* `Order` selects the finalize protocol:                                  *)
(*   "asbuilt"      : data pages, XML pages, then the header page (twice:  *)
(*                    the seek back to the end re-flushes page 0)          *)
(*   "early"        : header page before the last XML page                 *)
(*   "header_twice" : final header first with a provisional file length    *)
(*                    ("hdrP"), then again complete (seeded change C15-B)  *)
(*   "finalize_in_drop" : the destructor runs the finalize writes although *)
(*                    the caller never called finalize (seeded C15-A)      *)
(* TLC checks  Accepted => Complete /\ finStarted  for every crash point;  *)
(* it holds for "asbuilt" and "early" (the XML pages are verified, and no  *)
(* proper prefix of the XML is well-formed) and fails for the other two.   *)
(***************************************************************************)
EXTENDS Naturals, Sequences, FiniteSets

CONSTANTS NData,      \* pages of sections before the XML (>= 0; page 0 also holds section bytes)
          NXml,       \* pages touched by the XML (>= 1)
          Order

Pages == 0..(NData + NXml)
XmlPages == (NData + 1)..(NData + NXml)

VARIABLES dev,        \* page -> kind
          prog,       \* remaining writes of the writer program: sequence of <<page, kind>>
          crashed,    \* the writer is gone
          finStarted  \* the top-level finalize call has started

vars == <<dev, prog, crashed, finStarted>>

\* writes before finalize: placeholder header page (page 0 is flushed whenever the writer seeks back to patch a
\* section header), data pages in order, possibly re-written (patches)
BeforeFinalize ==
    <<<<0, "hdr0">>>> \o [i \in 1..NData |-> <<i, "data">>] \o (IF NData > 0 THEN <<<<1, "data">>, <<0, "hdr0">>>> ELSE <<>>)
XmlWrites == [i \in 1..NXml |-> <<NData + i, "data">>]
FinalizeWrites ==
    IF Order \in {"asbuilt", "finalize_in_drop"} THEN XmlWrites \o <<<<0, "hdrF">>, <<0, "hdrF">>>>
    ELSE IF Order = "header_twice" THEN XmlWrites \o <<<<0, "hdrP">>, <<0, "hdrF">>>>
    ELSE \* "early": the header goes out before the last XML page
         SubSeq(XmlWrites, 1, NXml - 1) \o <<<<0, "hdrF">>>> \o <<XmlWrites[NXml]>>

Init == /\ dev = [p \in Pages |-> "none"]
        /\ prog = BeforeFinalize \o FinalizeWrites
        /\ crashed = FALSE
        /\ finStarted = FALSE

\* one whole-page write reaches the device
Write == /\ ~crashed /\ prog # <<>>
         /\ dev' = [dev EXCEPT ![Head(prog)[1]] = Head(prog)[2]]
         /\ prog' = Tail(prog)
         /\ finStarted' = (finStarted \/ (Order # "finalize_in_drop" /\ Len(prog) <= Len(FinalizeWrites)))
         /\ UNCHANGED crashed
\* the process dies before the next write, or in the middle of it (torn page)
CrashBetween == ~crashed /\ crashed' = TRUE /\ UNCHANGED <<dev, prog, finStarted>>
CrashTorn == /\ ~crashed /\ prog # <<>>
             /\ dev' = [dev EXCEPT ![Head(prog)[1]] = "torn"]
             /\ crashed' = TRUE
             /\ finStarted' = (finStarted \/ (Order # "finalize_in_drop" /\ Len(prog) <= Len(FinalizeWrites)))
             /\ UNCHANGED prog
\* the writer is dropped without finalize: modelled by crashing before the finalize writes
Next == Write \/ CrashBetween \/ CrashTorn
Spec == Init /\ [][Next]_vars

\* what the reader can see
Accepted == dev[0] \in {"hdrF", "hdrP"} /\ \A p \in XmlPages : dev[p] = "data"
Complete == \A p \in Pages : dev[p] \in {"data", "hdrF"}
\* C15
AcceptedOnlyIfComplete == Accepted => (Complete /\ finStarted)
\* every image from before the top-level finalize is rejected
RejectedBeforeFinalize == ~finStarted => ~Accepted
=============================================================================
