--------------------------- MODULE MC_QueueExport ---------------------------
(* Prints every file (complete packet sequence) of the bounded QueueSpec environment, one JSON line each:
   all prototypes of ExportWidths x 1..ExpN points whose streams together have at most ExpBytes bytes,
   with at most ExpOther index / ignored / empty packets. *)
EXTENDS MC_Queue, TLC, Json
CONSTANTS ExpN, ExpOther, ExpBytes
ASSUME \A w \in ExportWidths : \A n \in 1..ExpN :
          TotalBytes(w, n) <= ExpBytes =>
             \A f \in FilesFrom(EnvFor(w, n, ExpOther)) : PrintT("QFILE " \o ToJson([w |-> w, n |-> n, packets |-> f]))
=============================================================================
