------------------------------ MODULE E57Encode ------------------------------
(***************************************************************************)
(* An independent ENCODER of compressed-vector sections, the inverse of    *)
(* E57Format's decoder, with explicit layout choices: how each record's    *)
(* byte stream is cut into data packets (unequal per record, values        *)
(* straddling packets, empty streams, packets that complete no point),     *)
(* index and ignored packets between data packets, and where the section   *)
(* starts.  Model-level theorem checked in MC_Encode:                      *)
(*     decoding Serialize(scene, layout) yields the scene, for every       *)
(*     layout in the bounds.                                               *)
(***************************************************************************)
EXTENDS E57Format

\* ---- bit level: LSB-first bits of the low w bits of a 64-bit value (limbs)
RECURSIVE BitsOfN(_, _)
BitsOfN(x, n) == IF n = 0 THEN <<>> ELSE <<x % 2>> \o BitsOfN(x \div 2, n - 1)
BitsOfL(l, w) ==
    BitsOfN(l[1], MinN(16, w)) \o
    (IF w > 16 THEN BitsOfN(l[2], MinN(16, w - 16)) ELSE <<>>) \o
    (IF w > 32 THEN BitsOfN(l[3], MinN(16, w - 32)) ELSE <<>>) \o
    (IF w > 48 THEN BitsOfN(l[4], MinN(16, w - 48)) ELSE <<>>)
RECURSIVE PackBits(_)
Byte8(b) == b[1] + 2 * b[2] + 4 * b[3] + 8 * b[4] + 16 * b[5] + 32 * b[6] + 64 * b[7] + 128 * b[8]
PackBits(bits) ==
    IF Len(bits) = 0 THEN <<>>
    ELSE IF Len(bits) < 8 THEN <<Byte8(bits \o SubSeq(<<0, 0, 0, 0, 0, 0, 0, 0>>, 1, 8 - Len(bits)))>>
    ELSE <<Byte8(SubSeq(bits, 1, 8))>> \o PackBits(SubSeq(bits, 9, Len(bits)))

LimbBytes(x) == <<x % 256, x \div 256>>
RECURSIVE AllBits(_, _, _, _)
AllBits(r, pts, i, k) ==
    IF k > Len(pts) THEN <<>>
    ELSE BitsOfL(Sub64(ValLimbs(pts[k][i]), r.min.some), Width(r)) \o AllBits(r, pts, i, k + 1)
RECURSIVE FloatBytes(_, _, _, _)
FloatBytes(r, pts, i, k) ==
    IF k > Len(pts) THEN <<>>
    ELSE LET l == ValLimbs(pts[k][i])
         IN (IF r.k = 0 THEN LimbBytes(l[1]) \o LimbBytes(l[2])
             ELSE LimbBytes(l[1]) \o LimbBytes(l[2]) \o LimbBytes(l[3]) \o LimbBytes(l[4])) \o FloatBytes(r, pts, i, k + 1)

\* the byte stream of record i over all points
EncodeStream(r, pts, i) == IF r.k <= 1 THEN FloatBytes(r, pts, i, 1) ELSE PackBits(AllBits(r, pts, i, 1))

RECURSIVE AllStreams(_, _, _)
AllStreams(proto, pts, i) == IF i > Len(proto) THEN <<>> ELSE <<EncodeStream(proto[i], pts, i)>> \o AllStreams(proto, pts, i + 1)

\* ---- packets
Pad4(n) == (4 - (n % 4)) % 4
RECURSIVE ConcatAll(_)
ConcatAll(ss) == IF ss = <<>> THEN <<>> ELSE Head(ss) \o ConcatAll(Tail(ss))
RECURSIVE SizesBytes(_)
SizesBytes(ss) == IF ss = <<>> THEN <<>> ELSE U16Bytes(Len(Head(ss))) \o SizesBytes(Tail(ss))

\* data packet holding the given slices (one per record)
DataPacketBytes(slices) ==
    LET body == SizesBytes(slices) \o ConcatAll(slices)
        len  == 6 + Len(body) + Pad4(6 + Len(body))
    IN <<1, 0>> \o U16Bytes(len - 1) \o U16Bytes(Len(slices)) \o body \o ZerosN(Pad4(6 + Len(body)))
\* index packet with n 16-byte entries (content irrelevant for readers that do not use the index)
IndexPacketBytes(n) ==
    LET len == 16 + 16 * n
    \* (byte 6 is the index level 0..5 -- inner index packets have a level above 0 --, the nine bytes behind it are reserved)
    IN <<0, 0>> \o U16Bytes(len - 1) \o U16Bytes(n) \o <<n % 6, 0>> \o ZerosN(8) \o [i \in 1..(16 * n) |-> (i * 7) % 256]
\* ignored packet of total length len (multiple of 4, >= 4), non-zero filler
IgnoredPacketBytes(len) == <<2, 0>> \o U16Bytes(len - 1) \o [i \in 1..(len - 4) |-> 255 - (i % 200)]

\* slices of the streams for one packet: record i contributes bytes [from[i], to[i]) (0-based)
RECURSIVE Slices(_, _, _, _)
Slices(streams, from, to, i) ==
    IF i > Len(streams) THEN <<>>
    ELSE <<SubSeq(streams[i], from[i] + 1, to[i])>> \o Slices(streams, from, to, i + 1)

\* layout: sequence of items; an item is [t |-> "data", to |-> <<cut per record>>] (cumulative
\* end positions, clipped to the stream lengths), [t |-> "index", n |-> k] or [t |-> "ignored", len |-> k]
Clip(to, streams) == [i \in 1..Len(streams) |-> MinN(to[i], Len(streams[i]))]
RECURSIVE PacketsOf(_, _, _)
PacketsOf(streams, layout, from) ==
    IF layout = <<>> THEN <<>>
    ELSE LET it == Head(layout)
         IN IF it.t = "data"
            THEN LET to == SubSeq(Clip(it.to, streams), 1, Len(streams))
                 IN DataPacketBytes(Slices(streams, from, to, 1)) \o PacketsOf(streams, Tail(layout), to)
            ELSE IF it.t = "index" THEN IndexPacketBytes(it.n) \o PacketsOf(streams, Tail(layout), from)
            ELSE IgnoredPacketBytes(it.len) \o PacketsOf(streams, Tail(layout), from)

\* does the layout deliver every byte of every stream?
RECURSIVE LastData(_)
LastData(layout) == IF layout = <<>> THEN <<>>
                    ELSE IF layout[Len(layout)].t = "data" THEN layout[Len(layout)].to ELSE LastData(SubSeq(layout, 1, Len(layout) - 1))
LayoutComplete(streams, layout) ==
    LET ld == LastData(layout)
    IN IF ld = <<>> THEN \A i \in 1..Len(streams) : Len(streams[i]) = 0
       ELSE \A i \in 1..Len(streams) : ld[i] >= Len(streams[i])
\* cut positions never go backwards
RECURSIVE Monotone(_, _)
Monotone(layout, prev) ==
    IF layout = <<>> THEN TRUE
    ELSE IF Head(layout).t # "data" THEN Monotone(Tail(layout), prev)
    ELSE (\A i \in 1..Len(prev) : Head(layout).to[i] >= prev[i]) /\ Monotone(Tail(layout), Head(layout).to)

\* the whole section placed at logical offset lstart
CvSectionBytes(lstart, proto, pts, layout) ==
    LET streams == AllStreams(proto, pts, 1)
        packets == PacketsOf(streams, layout, [i \in 1..Len(proto) |-> 0])
        seclen  == 32 + Len(packets)
    IN <<1, 0, 0, 0, 0, 0, 0, 0>> \o L64Bytes(NatToL64(seclen)) \o L64Bytes(NatToL64(Log2Phys(lstart + 32)))
       \o L64Bytes(NatToL64(0)) \o packets
=============================================================================
