------------------------------ MODULE Trace_C19 ------------------------------
(***************************************************************************)
(* C19: copying a readable file through the public API is lossless, a copy *)
(* of the copy changes nothing, writing is deterministic.  The acceptance  *)
(* relation of E57Spec decides whether the copy MUST succeed: every        *)
(* prototype the reader reports that obeys the documented prototype rules  *)
(* must be accepted by the writer (reader output is a subset of writer     *)
(* input).                                                                  *)
(***************************************************************************)
EXTENDS E57Spec, TraceBase
VARIABLE n
E == Rec[l]
TInit == n = 0 /\ sc = EmptyScene /\ file = [img |-> <<>>, L |-> <<>>, xml |-> <<>>] /\ res = Ok(0) /\ l = 1 /\ TLCSet(1, <<0, "none">>)
Unch == UNCHANGED <<sc, file, res>>
T_Reset == IsEv("reset") /\ Unch /\ UNCHANGED n
T_Unreadable == IsEv("c19_unreadable") /\ Unch /\ UNCHANGED n
MustCopy == \A i \in 1..Len(E.protos) : ProtoVerdict(E.protos[i], E.exts, TRUE) = "ok"
T_Copy ==
    /\ IsEv("c19_copy")
    /\ ChkP(~(IsErr(E.res) /\ E.res.failed.call = "panic"), {"C19", "C10"}, "copy-panicked")
    /\ ChkP(MustCopy => IsOk(E.res), {"C19"}, "copy-of-a-rule-abiding-file-failed")
    /\ IsOk(E.res) =>
         /\ ChkP(E.copy_readable = 1, {"C19"}, "copy-is-not-readable")
         /\ E.copy_readable = 1 => ChkP(E.source_report = E.copy_report /\ E.report_same = 1, {"C19"}, "copy-reports-other-metadata-than-the-source")
         /\ ChkP(E.points_same = 1, {"C19"}, "copy-holds-other-points-than-the-source")
         /\ ChkP(E.blobs_same = 1, {"C19"}, "copy-holds-other-image-data-than-the-source")
         /\ ChkP(E.second_copy_same = 1, {"C19"}, "copying-the-copy-changes-content")
         /\ ChkP(E.deterministic = 1, {"C19"}, "writing-the-same-content-twice-gives-different-bytes")
    /\ n' = n + 1 /\ Unch
TNext == T_Reset \/ T_Unreadable \/ T_Copy
TSpec == TInit /\ [][TNext]_<<evars, n, l>>
=============================================================================
