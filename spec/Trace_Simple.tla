----------------------------- MODULE Trace_Simple -----------------------------
(***************************************************************************)
(* Trace validation of the simple point iterator (C05, C13): for each      *)
(* point cloud the raw points, then one event per option vector with the   *)
(* points the simple iterator delivered.                                   *)
(***************************************************************************)
EXTENDS Simple, TraceBase

VARIABLES ctx, niter
vars == <<ctx, niter>>
E == Rec[l]
TInit == ctx = [none |-> 1] /\ niter = 0 /\ l = 1 /\ TLCSet(1, <<0, "none">>)

T_Reset == IsEv("reset") /\ ctx' = [none |-> 1] /\ UNCHANGED niter
T_NoFile == IsEv("simple_nofile") /\ ChkP(FALSE, {"C05", "C13"}, "file-could-not-be-produced-or-opened") /\ UNCHANGED vars
\* a deliberately damaged image that the reader refuses to open (returns an error): nothing is delivered
T_Refused == IsEv("simple_refused") /\ UNCHANGED vars
T_Pc == /\ IsEv("simple_pc")
        /\ ChkP(~("panic" \in DOMAIN E.raw), {"C05", "C08"}, "raw-iterator-panicked")
        /\ ctx' = E /\ UNCHANGED niter

RawOk == "ok" \in DOMAIN ctx.raw
RawErr == "err" \in DOMAIN ctx.raw
\* the points the raw iterator delivered (all of them, or those before its failure)
Raw == IF RawOk THEN ctx.raw.ok ELSE ctx.raw.got
AnyBad == \E k \in 1..Len(Raw) : BadState(ctx.proto, Raw[k])
FirstBad == CHOOSE k \in 1..Len(Raw) : BadState(ctx.proto, Raw[k]) /\ \A j \in 1..(k - 1) : ~BadState(ctx.proto, Raw[j])
PoseKnown == ctx.has_transform = 0 \/ IsSome(ctx.pose)
Opts == IF PoseKnown THEN E.opts ELSE <<0, E.opts[2], E.opts[3], E.opts[4], E.opts[5], E.opts[6]>>

PtOk(k, out) == PointOk(ctx.proto, Raw[k], ctx.pose, ctx.ilim, ctx.clim, E.opts, out)

\* C13: non-decreasing in the stored value (finite inputs, same channel, same option vector)
\* (quadratic in the number of points: checked on the sweeps, skipped for bulk files)
Mono(name, pick(_)) ==
    (HasR(ctx.proto, name) /\ Len(E.res.ok) <= 300) =>
      \A j, k \in 1..Len(E.res.ok) :
         LET vj == Q4(Raw[j], Pos(ctx.proto, name)) vk == Q4(Raw[k], Pos(ctx.proto, name))
         IN (IsFin(vj) /\ IsFin(vk) /\ Val(vj) <= Val(vk) /\ IsSome(pick(E.res.ok[j])) /\ IsSome(pick(E.res.ok[k])))
              => (IsFin(pick(E.res.ok[j]).some) /\ IsFin(pick(E.res.ok[k]).some) => Val(pick(E.res.ok[j]).some) <= Val(pick(E.res.ok[k]).some))
PickInt(o) == o.int
PickCol(i, o) == IF IsSome(o.col) THEN SomeV(o.col.some[i]) ELSE NoneV
PickR(o) == PickCol(1, o)
PickG(o) == PickCol(2, o)
PickB(o) == PickCol(3, o)

T_Iter ==
    /\ IsEv("simple_iter")
    /\ ~IsSome(ctx) => TRUE
    /\ ChkP(~("panic" \in DOMAIN E.res), {"C05", "C13", "C08"}, "simple-iterator-panicked")
    /\ (RawOk /\ ~("panic" \in DOMAIN E.res)) =>
         IF ~AnyBad
         THEN /\ ChkP("ok" \in DOMAIN E.res, {"C05"}, "simple-iterator-fails-where-the-raw-iterator-succeeds")
              /\ ("ok" \in DOMAIN E.res) =>
                   /\ ChkP(Len(E.res.ok) = Len(Raw), {"C05"}, "number-of-points-differs-from-raw-iterator")
                   /\ Len(E.res.ok) = Len(Raw) =>
                        /\ \A k \in 1..Len(Raw) : ChkP(PtOk(k, E.res.ok[k]), {"C05", "C13"}, "point-is-not-the-documented-view-of-the-raw-values")
                        /\ E.opts[5] = 1 => ChkP(Mono("intensity", PickInt), {"C13"}, "normalised-intensity-not-monotone")
                        /\ E.opts[6] = 1 => ChkP(Mono("colorRed", PickR) /\ Mono("colorGreen", PickG) /\ Mono("colorBlue", PickB), {"C13"}, "normalised-colour-not-monotone")
         ELSE \* a stored invalid-state value outside its set: the iterator may fail, what it yielded before must be right
              /\ ChkP("err" \in DOMAIN E.res, {"C05"}, "invalid-state-outside-its-set-accepted")
              /\ ("err" \in DOMAIN E.res) =>
                   /\ ChkP(Len(E.res.got) < FirstBad, {"C05"}, "points-yielded-past-an-invalid-state")
                   /\ \A k \in 1..Len(E.res.got) : k < FirstBad => ChkP(PtOk(k, E.res.got[k]), {"C05", "C13"}, "point-is-not-the-documented-view-of-the-raw-values")
    \* where the raw iterator fails the simple iterator fails too, after the same points
    /\ (RawErr /\ ~("panic" \in DOMAIN E.res) /\ ~AnyBad) =>
         /\ ChkP("err" \in DOMAIN E.res, {"C05"}, "simple-iterator-succeeds-where-the-raw-iterator-fails")
         /\ ("err" \in DOMAIN E.res) =>
              /\ ChkP(Len(E.res.got) = Len(Raw), {"C05"}, "simple-iterator-yields-another-number-of-points-before-the-common-failure")
              /\ Len(E.res.got) = Len(Raw) => \A k \in 1..Len(Raw) : ChkP(PtOk(k, E.res.got[k]), {"C05", "C13"}, "point-is-not-the-documented-view-of-the-raw-values")
    /\ niter' = niter + 1 /\ UNCHANGED ctx

TNext == T_Reset \/ T_NoFile \/ T_Refused \/ T_Pc \/ T_Iter
TSpec == TInit /\ [][TNext]_<<vars, l>>
=============================================================================
