------------------------------ MODULE TraceBase ------------------------------
(***************************************************************************)
(* Plumbing shared by all trace specifications: the recorded events, the   *)
(* position variable, tagged checks and the acceptance postcondition.      *)
(* Run with  -workers 1  (the diagnosis register is global).               *)
(***************************************************************************)
EXTENDS Naturals, Sequences, TLC, Json, IOUtils

Rec == ndJsonDeserialize(IOEnv.TRACE)

VARIABLE l        \* index of the next event to consume

IsEv(e) == l <= Len(Rec) /\ Rec[l].ev = e /\ l' = l + 1
Has(r, f) == f \in DOMAIN r

\* A tagged conjunct: when it is false the tag is remembered (register 1) so that the
\* postcondition can say which predicate rejected the first unmatched event.
\* Tags starting with "P:" are property-tier predicates, "S:" strict-tier (DESIGN 7.1).
Chk(cond, tag) == IF cond THEN TRUE ELSE TLCSet(1, <<l, tag>>) /\ FALSE

\* Property-tagged conjunct.  `pids` is the set of properties the predicate belongs to.  A check
\* run enforces the properties named by environment variables F_<id> (e.g. F_C01=1); predicates of
\* other properties are evaluated and reported (NONFOCUS) but do not reject the trace, so that one
\* property's known defect cannot mask another property's predicates later in the same run.
Focus(pid) == ("F_" \o pid) \in DOMAIN IOEnv \/ "F_ALL" \in DOMAIN IOEnv
\* With F_CONTINUE set a false focused predicate is reported (VIOL line) and the trace goes on, so that
\* exhaustive sweeps list every failing case instead of stopping at the first.
ChkP(cond, pids, what) ==
    IF cond THEN TRUE
    ELSE IF \E q \in pids : Focus(q)
         THEN IF "F_CONTINUE" \in DOMAIN IOEnv
              THEN PrintT(<<"VIOL", l, "P:" \o (CHOOSE q \in pids : Focus(q)) \o ":" \o what>>)
              ELSE TLCSet(1, <<l, "P:" \o (CHOOSE q \in pids : Focus(q)) \o ":" \o what>>) /\ FALSE
         ELSE PrintT(<<"NONFOCUS", l, pids, what>>)

\* Strict-tier conjunct that never rejects: a false one is reported as DRIFT (the implementation left the layout the
\* specification predicts -- legal, but worth a look) and the trace goes on.
Soft(cond, tag) == IF cond THEN TRUE ELSE PrintT(<<"DRIFT", l, tag>>)

\* progress register (2): highest event index consumed
Seen == TLCSet(2, l)

Accepted ==
    LET d == TLCGet("stats").diameter
    IN IF d - 1 = Len(Rec) THEN PrintT(<<"TRACE-ACCEPTED", Len(Rec)>>)
       ELSE /\ PrintT(<<"TRACE-REJECTED", d, Rec[d].ev, TLCGet(1)>>)
            /\ FALSE
=============================================================================
