------------------------------ MODULE TraceBase ------------------------------
(***************************************************************************)
(* Plumbing shared by all trace specifications: the recorded events, the   *)
(* position variable, tagged checks and the acceptance postcondition.      *)
(* Run with  -workers 1  (the diagnosis register is global).               *)
(***************************************************************************)
EXTENDS Naturals, Sequences, TLC, Json, IOUtils

Rec == ndJsonDeserialize(IOEnv.TRACE)

VARIABLE l        \* index of the next event to consume

IsEv(e) == l <= Len(Rec) /\ Rec[l].ev = e /\ l' = l + 1
Has(r, f) == f \in DOMAIN r

\* A tagged conjunct: when it is false the tag is remembered (register 1) so that the
\* postcondition can say which predicate rejected the first unmatched event.
\* Tags starting with "P:" are property-tier predicates, "S:" strict-tier (DESIGN 7.1).
Chk(cond, tag) == IF cond THEN TRUE ELSE TLCSet(1, <<l, tag>>) /\ FALSE

\* progress register (2): highest event index consumed
Seen == TLCSet(2, l)

Accepted ==
    LET d == TLCGet("stats").diameter
    IN IF d - 1 = Len(Rec) THEN PrintT(<<"TRACE-ACCEPTED", Len(Rec)>>)
       ELSE /\ PrintT(<<"TRACE-REJECTED", d, Rec[d].ev, TLCGet(1)>>)
            /\ FALSE
=============================================================================
