------------------------------ MODULE PacketLayer ------------------------------
(***************************************************************************)
(* How the point-cloud writer cuts points into data packets, as pure       *)
(* operators (shared by PacketWriterSpec, which explores them with TLC,    *)
(* and by Trace_E57, which compares them with the packets found in the     *)
(* files the real writer produced).                                        *)
(*   w      widths (bits per value) of the records                         *)
(*   bits   per record: bits in its stream not yet written to a packet     *)
(***************************************************************************)
EXTENDS Naturals, Integers, Sequences

RECURSIVE PSum(_, _)
PSum(f, i) == IF i > Len(f) THEN 0 ELSE f[i] + PSum(f, i + 1)
RECURSIVE PTup(_, _, _)
PTup(Op(_), i, n) == IF i > n THEN <<>> ELSE <<Op(i)>> \o PTup(Op, i + 1, n)

\* room for stream bytes in one packet and the number of points taken per packet (get_max_packet_points)
PRoom(n, cap, margin, hdr) == cap - (hdr + 2 * n) - n - margin
PMaxPP(w, cap, margin, hdr) == IF PSum(w, 1) = 0 THEN 0 ELSE (PRoom(Len(w), cap, margin, hdr) * 8) \div PSum(w, 1)

\* write_buffer_to_disk: k points go into the bit streams; every stream gives its full bytes (all bytes when `last`)
PStep(w, bits, k, last) ==
    LET n    == Len(w)
        nb   == PTup(LAMBDA i : bits[i] + k * w[i], 1, n)
        size == PTup(LAMBDA i : IF last THEN (nb[i] + 7) \div 8 ELSE nb[i] \div 8, 1, n)
    IN [bits |-> PTup(LAMBDA i : IF last THEN 0 ELSE nb[i] - 8 * size[i], 1, n), size |-> size]

\* the data packets (stream sizes) of a point cloud of `npts` points: one packet per maxpp points while adding,
\* one for the rest and one for the partial bytes when finalizing; packets without any byte are not written
RECURSIVE PFull(_, _, _, _)
PFull(w, bits, mpp, q) ==
    IF q = 0 THEN [bits |-> bits, pk |-> <<>>]
    ELSE LET s == PStep(w, bits, mpp, FALSE)
             r == PFull(w, s.bits, mpp, q - 1)
         IN [bits |-> r.bits, pk |-> (IF PSum(s.size, 1) > 0 THEN <<s.size>> ELSE <<>>) \o r.pk]
PPackets(w, npts, cap, margin, hdr) ==
    LET mpp  == PMaxPP(w, cap, margin, hdr)
        full == PFull(w, PTup(LAMBDA i : 0, 1, Len(w)), mpp, npts \div mpp)
        rest == PStep(w, full.bits, npts % mpp, FALSE)
        restpk == IF npts % mpp > 0 /\ PSum(rest.size, 1) > 0 THEN <<rest.size>> ELSE <<>>
        rbits == IF npts % mpp > 0 THEN rest.bits ELSE full.bits
        fin  == PStep(w, rbits, 0, TRUE)
    IN full.pk \o restpk \o (IF PSum(fin.size, 1) > 0 THEN <<fin.size>> ELSE <<>>)
=============================================================================
