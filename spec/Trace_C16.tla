------------------------------ MODULE Trace_C16 ------------------------------
(***************************************************************************)
(* C16: device faults surface as errors; short I/O changes nothing.        *)
(* Events (one per injected fault position / chunking schedule):           *)
(*  c16_ref    fault-free run: what is durable after finalize              *)
(*  c16_wfault fault at device operation `at` of the writer program:       *)
(*             `hit` = the API calls during which the fault fired          *)
(*  c16_rfault same for the reader program                                 *)
(*  c16_chunk  re-run with a short-transfer schedule                       *)
(*  c16_wintr  fault of the retryable kind (Interrupted) at operation `at` *)
(*  c16_wretry a failed finalize tried again on the same writer            *)
(*  c16_rintr  the retryable kind at operation `at` of the reader program  *)
(* Model of the intended behaviour: a device error inside a call unwinds   *)
(* to that call's result (Err); nothing is retried or swallowed; finalize  *)
(* reports Ok only after the final flush succeeded, so what is durable is  *)
(* the complete file.  A fault outside any call (a destructor) is allowed. *)
(***************************************************************************)
EXTENDS TraceBase

VARIABLES wops, rops, nw, nr
vars == <<wops, rops, nw, nr>>
E == Rec[l]
IsErrR(r) == "err" \in DOMAIN r
TInit == wops = 0 /\ rops = 0 /\ nw = 0 /\ nr = 0 /\ l = 1 /\ TLCSet(1, <<0, "none">>)

T_Reset == IsEv("reset") /\ wops' = E.wops /\ rops' = 0 /\ nw' = 0 /\ nr' = 0
T_Ref == /\ IsEv("c16_ref")
         /\ ChkP(E.durable_is_complete = 1, {"C16"}, "finalize-ok-but-device-does-not-hold-the-complete-file")
         /\ UNCHANGED vars
T_RRef == IsEv("c16_rref") /\ rops' = E.rops /\ UNCHANGED <<wops, nw, nr>>

FaultSurfaces(e) ==
    /\ ChkP(e.panicked = 0, {"C16", "C08", "C10"}, "panic-under-device-fault")
    /\ ChkP(e.fired = 1 => \A i \in 1..Len(e.hit) : IsErrR(e.hit[i].res), {"C16"}, "call-in-progress-did-not-return-an-error")
T_WFault ==
    /\ IsEv("c16_wfault")
    /\ ChkP(E.at = nw /\ E.at < wops, {"C16"}, "fault-positions-not-exhaustive")
    /\ FaultSurfaces(E)
    /\ ChkP(E.finalize_ok = 1 => E.durable_complete = 1, {"C16"}, "finalize-ok-but-device-does-not-hold-the-complete-file")
    /\ nw' = nw + 1 /\ UNCHANGED <<wops, rops, nr>>
\* the retryable error kind (RetrySpec): the operation may be repeated inside the call, which may then succeed; whenever
\* finalize reports Ok the device holds the complete file (the same bytes, or at least a file that reads the same)
T_WIntr ==
    /\ IsEv("c16_wintr")
    /\ ChkP(E.panicked = 0, {"C16", "C10"}, "panic-under-device-fault")
    /\ ChkP(E.finalize_ok = 1 => (E.durable_complete = 1 \/ E.reads_complete = 1), {"C16"}, "finalize-ok-after-an-interrupted-device-operation-but-the-device-does-not-hold-the-complete-file")
    /\ UNCHANGED vars
\* a failed finalize tried again: Ok only with a complete file
T_WRetry ==
    /\ IsEv("c16_wretry")
    /\ ChkP(E.panicked = 0, {"C16", "C10"}, "panic-under-device-fault")
    /\ ChkP(E.retry_ok = 1 => E.reads_complete = 1, {"C16"}, "repeated-finalize-ok-but-the-device-does-not-hold-the-complete-file")
    /\ UNCHANGED vars
\* the retryable kind while reading: a loop may repeat the device operation; every read operation then fails or returns
\* exactly what it returns on the undisturbed device (also the operations after the one that was hit)
T_RIntr ==
    /\ IsEv("c16_rintr")
    /\ ChkP(E.panicked = 0, {"C16", "C08"}, "panic-under-device-fault")
    /\ ChkP(E.nbad = 0, {"C16"}, "read-result-differs-after-an-interrupted-device-operation")
    /\ UNCHANGED vars
T_RFault ==
    /\ IsEv("c16_rfault")
    /\ ChkP(E.at = nr /\ E.at < rops, {"C16"}, "fault-positions-not-exhaustive")
    /\ FaultSurfaces(E)
    /\ ChkP(E.fired = 1 => Len(E.hit) >= 1, {"C16"}, "fault-during-read-not-reported")
    /\ nr' = nr + 1 /\ UNCHANGED <<wops, rops, nw>>
T_Chunk ==
    /\ IsEv("c16_chunk")
    /\ ChkP(E.write_ok = 1 /\ E.same_file = 1, {"C16"}, "short-writes-change-the-file")
    /\ ChkP(E.same_reads = 1, {"C16"}, "short-reads-change-the-values-read")
    /\ UNCHANGED vars

\* binding of ChunkSpec's read loop to the recorded device reads of a chunked run: each maximal run of
\* consecutive reads asks for what is still missing of one page and ends exactly when the page is full or the
\* device reports end of file
RECURSIVE LoopOk(_, _, _)
LoopOk(lp, i, remaining) ==
    IF i > Len(lp) THEN remaining = 0 \/ lp[Len(lp)][2] = 0
    ELSE /\ lp[i][1] = remaining /\ lp[i][2] <= remaining
         /\ (lp[i][2] = 0 => i = Len(lp))
         /\ (remaining - lp[i][2] = 0 => i = Len(lp))
         /\ LoopOk(lp, i + 1, remaining - lp[i][2])
T_ReadLoops ==
    /\ IsEv("c16_readloops")
    /\ \A k \in 1..Len(E.loops) : ChkP(LoopOk(E.loops[k], 1, 1024), {"C16"}, "page-reload-loop-does-not-follow-ChunkSpec")
    /\ UNCHANGED vars
TNext == T_RIntr \/ T_WIntr \/ T_WRetry \/ T_ReadLoops \/ T_Reset \/ T_Ref \/ T_RRef \/ T_WFault \/ T_RFault \/ T_Chunk
TSpec == TInit /\ [][TNext]_<<vars, l>>
=============================================================================
