------------------------------ MODULE Trace_Tools ------------------------------
(***************************************************************************)
(* C20: the bundled tools expose the library's data faithfully.  Each tool *)
(* is one action over files; events record what went in and what came out  *)
(* (numbers as bit patterns / integers, byte strings compared by the       *)
(* recorder with the library's own result).                                *)
(*  t_xyz    : e57-from-xyz then e57-to-xyz on one XYZ text file           *)
(*  t_crc    : e57-check-crc on an intact or altered file                  *)
(*  t_xml    : e57-extract-xml vs E57Reader::raw_xml                       *)
(*  t_unpack : e57-unpack vs xml(), blob(), pointcloud_raw()               *)
(***************************************************************************)
EXTENDS TraceBase
VARIABLES n
E == Rec[l]
TInit == n = 0 /\ l = 1 /\ TLCSet(1, <<0, "none">>)
T_Reset == IsEv("reset") /\ UNCHANGED n

\* lines with at least six columns become points, in order; others are skipped
Kept(lines) == SelectSeq(lines, LAMBDA ln : ln.cols >= 6)
T_Xyz ==
    /\ IsEv("t_xyz")
    /\ ChkP(E.from_exit = 0 /\ E.to_exit = 0, {"C20"}, "conversion-tool-failed")
    /\ (E.from_exit = 0 /\ E.to_exit = 0) =>
         \E k \in {Kept(E.lines)} :
            /\ ChkP(Len(E.out) = Len(k), {"C20"}, "number-of-points-after-round-trip")
            /\ Len(E.out) = Len(k) =>
                 \A i \in 1..Len(k) :
                    /\ ChkP(E.out[i].xyz = k[i].xyz, {"C20"}, "coordinates-changed")
                    /\ ChkP(E.out[i].rgb = k[i].rgb, {"C20"}, "colours-changed")
    /\ n' = n + 1
T_Crc == /\ IsEv("t_crc")
         /\ ChkP((E.exit = 0) <=> (E.altered = 0), {"C20"}, "check-crc-exit-status")
         /\ n' = n + 1
T_Xml == /\ IsEv("t_xml")
         /\ ChkP(E.exit = 0 /\ E.same = 1, {"C20"}, "extract-xml-differs-from-raw_xml")
         /\ n' = n + 1
T_Unpack == /\ IsEv("t_unpack")
            /\ ChkP(E.exit = 0, {"C20"}, "unpack-failed")
            /\ ChkP(E.xml_same = 1, {"C20"}, "unpack-xml-differs-from-xml()")
            /\ ChkP(E.blobs_expected = E.blobs_same, {"C20"}, "unpack-blob-differs-from-blob()")
            /\ ChkP(E.points_expected = E.points_same, {"C20"}, "unpack-csv-differs-from-pointcloud_raw()")
            /\ n' = n + 1
TNext == T_Reset \/ T_Xyz \/ T_Crc \/ T_Xml \/ T_Unpack
TSpec == TInit /\ [][TNext]_<<n, l>>
=============================================================================
