------------------------------- MODULE RetrySpec -------------------------------
(***************************************************************************)
(* Design-level model of `write_all` over `PagedWriter::write` when the    *)
(* device reports the RETRYABLE error kind (`ErrorKind::Interrupted`).     *)
(*                                                                         *)
(* `write(buf)` first copies bytes into the page buffer (they are consumed)*)
(* and, when the page is full, talks to the device: emit the page, ask for *)
(* the position, re-load the next page, seek back.  `write_all` -- the     *)
(* caller, inside the library and inside std -- retries the SAME bytes     *)
(* whenever `write` fails with kind Interrupted.  Hence the rule: once     *)
(* bytes are consumed, `write` must not fail with a retryable kind.        *)
(*                                                                         *)
(* `Variant`:                                                              *)
(*   "asbuilt"    device reads that are interrupted are retried in place;  *)
(*                any other failure after consumption is reported with a   *)
(*                kind that is not retryable                               *)
(*   "propagate"  the device's Interrupted is handed to the caller after   *)
(*                the bytes were consumed (the code before D-34)           *)
(* TLC: Exact and ErrorsSurface hold for "asbuilt"; "propagate" reaches    *)
(* "done" with a stream that contains a chunk twice.                       *)
(***************************************************************************)
EXTENDS Naturals, Sequences

CONSTANTS N,        \* bytes the caller wants to write
          MaxChunk, \* most bytes one write() accepts
          Variant

VARIABLES stream,   \* source indices the page layer has consumed, in order
          sent,     \* bytes the caller believes are written
          pend,     \* bytes consumed by the call in progress
          pc,       \* "idle" | "devops" | "ret_ok" | "ret_intr" | "ret_err" | "done" | "failed"
          intr      \* interruptions the device has reported so far

vars == <<stream, sent, pend, pc, intr>>
Init == stream = <<>> /\ sent = 0 /\ pend = 0 /\ pc = "idle" /\ intr = 0

Min(a, b) == IF a < b THEN a ELSE b
\* write(): consume k bytes; the page may or may not be complete
CallWrite == /\ pc = "idle" /\ sent < N
             /\ \E k \in 1..Min(MaxChunk, N - sent) : \E rollover \in BOOLEAN :
                  /\ stream' = stream \o [i \in 1..k |-> sent + i]
                  /\ pend' = k
                  /\ pc' = IF rollover THEN "devops" ELSE "ret_ok"
             /\ UNCHANGED <<sent, intr>>
\* the device operations behind a completed page succeed ...
DevOk == pc = "devops" /\ pc' = "ret_ok" /\ UNCHANGED <<stream, sent, pend, intr>>
\* ... or one of them is interrupted (at most twice per run)
DevIntr == /\ pc = "devops" /\ intr < 2
           /\ intr' = intr + 1
           /\ pc' = IF Variant = "propagate" THEN "ret_intr" ELSE "devops"   \* as built: retried in place
           /\ UNCHANGED <<stream, sent, pend>>
\* ... or fails for good
DevFail == pc = "devops" /\ pc' = "ret_err" /\ UNCHANGED <<stream, sent, pend, intr>>
RetOk == /\ pc = "ret_ok" /\ sent' = sent + pend /\ pend' = 0
         /\ pc' = IF sent + pend = N THEN "done" ELSE "idle"
         /\ UNCHANGED <<stream, intr>>
\* write_all: `Err(e) if e.kind() == Interrupted => continue` -- the same bytes again
RetIntr == pc = "ret_intr" /\ pc' = "idle" /\ pend' = 0 /\ UNCHANGED <<stream, sent, intr>>
RetErr == pc = "ret_err" /\ pc' = "failed" /\ UNCHANGED <<stream, sent, pend, intr>>
Next == CallWrite \/ DevOk \/ DevIntr \/ DevFail \/ RetOk \/ RetIntr \/ RetErr
Spec == Init /\ [][Next]_vars

\* whenever the caller is told that everything was written, the page layer consumed exactly the source
Exact == pc = "done" => stream = [i \in 1..N |-> i]
\* between calls the consumed stream is what the caller believes
InStep == pc = "idle" => stream = [i \in 1..sent |-> i]
=============================================================================
