------------------------------ MODULE Trace_C15 ------------------------------
(***************************************************************************)
(* C15: an interrupted write is never mistaken for a complete file.        *)
(* The write sequence of a writer program was recorded; each event is one  *)
(* device image: the writes before index w applied completely plus the     *)
(* first `cut` bytes of write w (writes reach the device in issue order).  *)
(* Commit argument being checked: the placeholder header (XML length 0)    *)
(* stays in place until the XML is on the device; the real header is the   *)
(* last page written, little-endian fields make every torn prefix of the   *)
(* header patch carry a shorter or zero XML length or an unsealed page 0.  *)
(***************************************************************************)
EXTENDS TraceBase

VARIABLES nimg, nacc, hasfin
vars == <<nimg, nacc, hasfin>>
E == Rec[l]
TInit == nimg = 0 /\ nacc = 0 /\ hasfin = 0 /\ l = 1 /\ TLCSet(1, <<0, "none">>)

T_Reset == IsEv("reset") /\ nimg' = 0 /\ nacc' = 0 /\ hasfin' = E.finalize_in_program
T_Img ==
    /\ IsEv("c15_img")
    /\ ChkP(E.accepted # 2, {"C15", "C08"}, "reader-panicked-on-crash-image")
    /\ ChkP(E.accepted = 1 => E.fin_started = 1, {"C15"}, "image-from-before-finalize-accepted")
    /\ ChkP(E.accepted = 1 => E.listing_same = 1, {"C15"}, "accepted-image-lists-other-content-than-the-completed-file")
    /\ ChkP(E.accepted = 1 => \A i \in 1..Len(E.ops) : E.ops[i][2] \in {"err", "same"}, {"C15"}, "accepted-image-returns-data-that-differs-from-the-completed-file")
    \* the static XML extraction needs no accepted reader: on EVERY image it fails or returns the XML of a finalized version
    /\ ("rawxml" \in DOMAIN E) => ChkP(E.rawxml \in {"err", "same"}, {"C15"}, "raw-xml-of-an-incomplete-image-is-neither-an-error-nor-the-xml-of-a-finalized-version")
    /\ nimg' = nimg + 1 /\ nacc' = nacc + (IF E.accepted = 1 THEN 1 ELSE 0) /\ UNCHANGED hasfin
\* ---- binding of the design-level model CrashSpec to the recorded write sequence --------------------
\* the device of CrashSpec after the first k recorded writes
AbsDev(W, k) == [p \in 0..(E.pages - 1) |->
                   LET idx == {j \in 1..k : W[j][1] = p}
                   IN IF idx = {} THEN "none" ELSE W[CHOOSE j \in idx : \A i \in idx : i <= j][2]]
XmlPagesOf == E.xml_first..E.xml_last
AbsAccepted(d) == d[0] \in {"hdrF", "hdrP"} /\ \A p \in XmlPagesOf : p \in DOMAIN d /\ d[p] = "data"
AbsComplete(d) == \A p \in DOMAIN d : d[p] \in {"data", "hdrF"}
T_Writes ==
    /\ IsEv("c15_writes")
    /\ Chk(E.whole_pages = 1, "S:writes-are-not-whole-pages")
    \* the recorded sequence obeys the commit ordering that CrashSpec proves sufficient
    /\ \A k \in 0..Len(E.writes) :
          \E d \in {AbsDev(E.writes, k)} :
             ChkP(AbsAccepted(d) => (AbsComplete(d) /\ k > 0 /\ E.writes[k][3] = 1), {"C15"}, "write-order-allows-an-incomplete-image-to-be-accepted")
    /\ UNCHANGED vars
T_End ==
    /\ IsEv("c15_end")
    /\ Chk(E.final_equals_device = 1, "S:replayed-writes-do-not-reproduce-the-device")
    \* non-vacuity: a program with finalize ends in an accepted image
    /\ ChkP(hasfin = 1 => nacc >= 1, {"C15"}, "completed-file-not-accepted")
    /\ UNCHANGED vars
TNext == T_Reset \/ T_Writes \/ T_Img \/ T_End
TSpec == TInit /\ [][TNext]_<<vars, l>>
=============================================================================
