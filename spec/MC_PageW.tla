------------------------------- MODULE MC_PageW -------------------------------
(***************************************************************************)
(* Bounded instance of PageSpec (writer side) for exhaustive search at the *)
(* real page size, with export of every explored edge as one JSON line:    *)
(* (history reaching the source state, action, observer digest).           *)
(***************************************************************************)
EXTENDS PageSpec, TLC, Json

CONSTANTS MaxDepth, MaxPages, Export, Merge

VARIABLE last     \* sequence of the operations executed so far (hidden by VIEW except its length)

WriteSizes  == {1, 3, 4, 48, 1017, 1019, 1020, 1021, 2041}
SeekTargets == {0, 1, 4, 48, 1016, 1019, 1020, 1023, 1024, 1028, 2044, 2048, 3071}

Rec(a) == last' = Append(last, a)

MCInit == PInit /\ last = <<>>

MCNext ==
    /\ Len(last) < MaxDepth
    /\ \/ \E n \in WriteSizes :
            /\ W_WriteAll(PatData(Len(last), n))
            /\ Rec([op |-> "write_all", n |-> n, salt |-> Len(last)])
       \/ \E n \in {1019, 1021} :
            /\ W_Write1(PatData(Len(last), n))
            /\ Rec([op |-> "write1", n |-> n, salt |-> Len(last)])
       \/ W_Flush /\ Rec([op |-> "flush"])
       \/ W_Align /\ Rec([op |-> "align"])
       \/ W_Pos   /\ Rec([op |-> "pos"])
       \/ W_Size  /\ Rec([op |-> "size"])
       \/ \E p \in SeekTargets \cup {PhysSize(ws), PhysSize(ws) + 1} :
            /\ W_Seek(p)
            /\ Rec([op |-> "seek", pos |-> p])

MCSpec == MCInit /\ [][MCNext]_<<pvars, last>>

MCView == IF Merge THEN <<ws, lg, wfail, fp, Len(last)>> ELSE <<ws, lg, wfail, fp, last>>
Bound  == Len(ws[1]) <= MaxPages * PAGE

\* ---- observer digest: what the harness can see through the public surface ----
Sums(d) == [k \in 1..NPages(d) |-> SubSeq(d, (k - 1) * PAGE + P + 1, k * PAGE)]
ObsW(s) == LET f  == Flushed(s)
               s2 == Flushed(WriteAll(s, <<255>>))
           IN [pos |-> PhysPos(s), size |-> Len(f[1]), sums |-> Sums(f[1]),
               size2 |-> Len(s2[1]), sums2 |-> Sums(s2[1])]

Edge == IF Export
        THEN PrintT("EDGE " \o ToJson([h |-> last', res |-> res',
                                       obs |-> IF wfail' THEN [failed |-> TRUE] ELSE ObsW(ws')]))
        ELSE TRUE
=============================================================================
