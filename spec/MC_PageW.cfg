SPECIFICATION MCSpec
CONSTANTS
  MaxDepth = 3
  MaxPages = 4
  Export = FALSE
VIEW MCView
CONSTRAINT Bound
ACTION_CONSTRAINT Edge
INVARIANTS C11_Between C11_FlushPoint C11_Position
CHECK_DEADLOCK FALSE
