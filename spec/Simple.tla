-------------------------------- MODULE Simple --------------------------------
(***************************************************************************)
(* The documented view of the simple point iterator as a pure function of  *)
(* the raw values, the prototype, the pose, the limits and the six option  *)
(* switches (C05), and the normalisation of colour/intensity (C13).        *)
(* Arithmetic is exact: coordinates are integers on the 1/1024 grid,       *)
(* angles are integer quarter turns (cos/sin tabulated), rotations are     *)
(* integer matrices (signed permutations), colour/intensity inputs live on *)
(* the 1/4 grid and outputs on the 1/65536 grid.  Every number is a tagged *)
(* pair <<tag, n>>: 0 finite, 1 NaN, 2 +inf, 3 -inf, 4 too large, 5 not on *)
(* the grid.                                                                *)
(***************************************************************************)
EXTENDS Naturals, Integers, Sequences, FiniteSets

Fin(n)   == <<0, n>>
IsFin(v) == v[1] = 0
Val(v)   == v[2]
IsNaNV(v) == v[1] = 1
IsBig(v) == v[1] = 4

NoneV    == [none |-> 1]
SomeV(v) == [some |-> v]
IsSome(o) == "some" \in DOMAIN o

\* ---- prototype lookups (standard records only)
IsStdRec(r) == ~IsSome(r.ns)
Pos(proto, n) == IF \E i \in 1..Len(proto) : IsStdRec(proto[i]) /\ proto[i].name = n
                 THEN CHOOSE i \in 1..Len(proto) : IsStdRec(proto[i]) /\ proto[i].name = n
                 ELSE 0
HasR(proto, n) == Pos(proto, n) # 0
HasAll(proto, names) == \A n \in names : HasR(proto, n)
CartNames == {"cartesianX", "cartesianY", "cartesianZ"}
SphNames  == {"sphericalRange", "sphericalAzimuth", "sphericalElevation"}
ColNames  == {"colorRed", "colorGreen", "colorBlue"}

\* raw value projections of point p at record i: <<q1024, quarter turns, q4, integer>>
Q(p, i)  == p[i][1]
TU(p, i) == p[i][2]
Q4(p, i) == p[i][3]
IV(p, i) == p[i][4]

CosT(k) == LET m == k % 4 IN IF m = 0 THEN 1 ELSE IF m = 2 THEN -1 ELSE 0
SinT(k) == CosT(k - 1)

\* ---- invalid states
StateOf(proto, p, flag, present, absent) ==
    IF HasR(proto, flag) THEN IV(p, Pos(proto, flag))
    ELSE IF present THEN Fin(0) ELSE Fin(absent)

Zero3 == <<Fin(0), Fin(0), Fin(0)>>
InvalidC == <<2, Fin(0), Fin(0), Fin(0)>>
InvalidS == <<2, Fin(0), Fin(0), Fin(0)>>
BadCS    == <<9, Fin(0), Fin(0), Fin(0)>>        \* an invalid-state value outside its documented set

\* returns "bad" when an invalid-state value is outside its documented set
RawCart(proto, p) ==
    LET has == HasAll(proto, CartNames)
        st  == StateOf(proto, p, "cartesianInvalidState", has, 2)
    IN IF ~has THEN InvalidC
       ELSE IF ~IsFin(st) \/ Val(st) \notin {0, 1, 2} THEN BadCS
       ELSE IF Val(st) = 2 THEN InvalidC
       ELSE <<Val(st), Q(p, Pos(proto, "cartesianX")), Q(p, Pos(proto, "cartesianY")), Q(p, Pos(proto, "cartesianZ"))>>
RawSph(proto, p) ==
    LET has == HasAll(proto, SphNames)
        st  == StateOf(proto, p, "sphericalInvalidState", has, 2)
    IN IF ~has THEN InvalidS
       ELSE IF ~IsFin(st) \/ Val(st) \notin {0, 1, 2} THEN BadCS
       ELSE IF Val(st) = 2 THEN InvalidS
       ELSE IF Val(st) = 1 THEN <<1, Fin(0), TU(p, Pos(proto, "sphericalAzimuth")), TU(p, Pos(proto, "sphericalElevation"))>>
       ELSE <<0, Q(p, Pos(proto, "sphericalRange")), TU(p, Pos(proto, "sphericalAzimuth")), TU(p, Pos(proto, "sphericalElevation"))>>

\* ---- normalisation (C13)
\* range: [lo, hi] on the 1/4 grid (tagged), or NoneV
SameKindLimits(mn, mx) == IsSome(mn) /\ IsSome(mx) /\ mn.some[1] = mx.some[1] /\ mn.some[1] \in {0, 1, 3}
RangeFor(rec, lmin, lmax) ==
    IF SameKindLimits(lmin, lmax) THEN [lo |-> lmin.some[2], hi |-> lmax.some[2]]
    \* the range of the data type as real values: qmin/qmax are the images of the declared minimum and maximum, which a
    \* scaled integer with a negative scale maps in reverse order
    ELSE IF IsFin(rec.qmin) /\ IsFin(rec.qmax) /\ Val(rec.qmin) > Val(rec.qmax) THEN [lo |-> rec.qmax, hi |-> rec.qmin]
    ELSE [lo |-> rec.qmin, hi |-> rec.qmax]
\* is the normalised output `out` (1/65536 grid) acceptable for input v (1/4 grid) and range rg
Exact(rg) == IsFin(rg.lo) /\ IsFin(rg.hi) /\ Val(rg.hi) - Val(rg.lo) < 32768 /\ Val(rg.hi) >= Val(rg.lo)
NormOk(v, rg, out) ==
    /\ IsFin(out) /\ Val(out) >= 0 /\ Val(out) <= 65536               \* in [0,1], never NaN or infinite
    /\ (Exact(rg) /\ IsFin(v)) =>
         LET w == Val(rg.hi) - Val(rg.lo)  d == Val(v) - Val(rg.lo)
         IN IF w = 0 THEN Val(out) = 0                                 \* degenerate range yields 0
            ELSE IF d <= 0 THEN Val(out) = 0                           \* 0 at (and below) the minimum
            ELSE IF d >= w THEN Val(out) = 65536                       \* 1 at (and above) the maximum
            ELSE LET diff == Val(out) * w - 65536 * d                  \* (v - min) / (max - min) within one grid unit
                 IN diff <= w /\ -diff <= w
\* not normalised: the stored value as a 32-bit float
PlainOk(v, out) == IsFin(v) /\ Val(v) < 100000 /\ -Val(v) < 100000 => (IsFin(out) /\ Val(out) = Val(v) * 16384)

ChannelOk(enabled, v, rg, out) == IF enabled THEN NormOk(v, rg, out) ELSE PlainOk(v, out)

\* ---- the view of one point; opts = <<pose, s2c, c2s, i2c, ni, nc>> as 0/1
\* pose: NoneV or SomeV([m |-> 3x3 integer matrix (row major), t |-> translation on the 1/1024 grid])
AllFin(c) == IsFin(c[2]) /\ IsFin(c[3]) /\ IsFin(c[4])

S2C(c, s) ==
    IF c[1] = 0 THEN c
    ELSE IF s[1] = 0 /\ IsFin(s[2]) /\ IsFin(s[3]) /\ IsFin(s[4])
         THEN LET r == Val(s[2]) az == Val(s[3]) el == Val(s[4])
              IN <<0, Fin(r * CosT(el) * CosT(az)), Fin(r * CosT(el) * SinT(az)), Fin(r * SinT(el))>>
    ELSE IF c[1] = 1 THEN c
    ELSE IF s[1] = 1 /\ IsFin(s[3]) /\ IsFin(s[4])
         THEN LET az == Val(s[3]) el == Val(s[4])
              IN <<1, Fin(1024 * CosT(el) * CosT(az)), Fin(1024 * CosT(el) * SinT(az)), Fin(1024 * SinT(el))>>
    ELSE c

\* Cartesian -> spherical is decided only for axis-aligned vectors (angles are quarter turns there)
AxisAligned(c) == AllFin(c) /\ Cardinality({i \in 2..4 : Val(c[i]) # 0}) = 1
AbsI(x) == IF x < 0 THEN -x ELSE x
AxisAz(c) == IF Val(c[2]) > 0 THEN 0 ELSE IF Val(c[2]) < 0 THEN 2 ELSE IF Val(c[3]) > 0 THEN 1 ELSE IF Val(c[3]) < 0 THEN -1 ELSE 0
AxisEl(c) == IF Val(c[4]) > 0 THEN 1 ELSE IF Val(c[4]) < 0 THEN -1 ELSE 0
AxisR(c)  == AbsI(Val(c[2])) + AbsI(Val(c[3])) + AbsI(Val(c[4]))
\* az = pi and az = -pi are the same direction (atan2(-0, -x) = -pi)
AzEq(a, b) == a = b \/ (IsFin(a) /\ IsFin(b) /\ (Val(a) - Val(b)) % 4 = 0)
C2S_decided(c, s) == IF s[1] = 0 THEN TRUE
                     ELSE IF c[1] = 0 THEN AxisAligned(c)
                     ELSE IF s[1] = 1 THEN TRUE
                     ELSE IF c[1] = 1 THEN AxisAligned(c)
                     ELSE TRUE
C2S(c, s) ==
    IF s[1] = 0 THEN s
    ELSE IF c[1] = 0 THEN <<0, Fin(AxisR(c)), Fin(AxisAz(c)), Fin(AxisEl(c))>>
    ELSE IF s[1] = 1 THEN s
    ELSE IF c[1] = 1 THEN <<1, Fin(0), Fin(AxisAz(c)), Fin(AxisEl(c))>>
    ELSE s

\* m is the rotation matrix times `den` (1 when absent): rotations about axes that are not coordinate axes have rational
\* entries (n R is an integer matrix for a quaternion with integer components of squared norm n); the generator chooses
\* coordinates for which the quotient is exact
Posed(c, pose) ==
    IF c[1] # 0 \/ ~IsSome(pose) \/ ~AllFin(c) THEN c
    ELSE LET m == pose.some.m  t == pose.some.t  x == Val(c[2]) y == Val(c[3]) z == Val(c[4])
             den == IF "den" \in DOMAIN pose.some THEN pose.some.den ELSE 1
             QD(a) == IF a >= 0 THEN a \div den ELSE -((-a) \div den)
         IN <<0, Fin(QD(m[1][1] * x + m[1][2] * y + m[1][3] * z) + t[1]),
                 Fin(QD(m[2][1] * x + m[2][2] * y + m[2][3] * z) + t[2]),
                 Fin(QD(m[3][1] * x + m[3][2] * y + m[3][3] * z) + t[3])>>

\* expected geometry of a point: <<cartesian, spherical, c2s decided?>>
Geometry(proto, p, pose, opts) ==
    LET c0 == RawCart(proto, p)  s0 == RawSph(proto, p)
        c1 == IF opts[2] = 1 THEN S2C(c0, s0) ELSE c0
        dec == opts[3] = 0 \/ C2S_decided(c1, s0)
        s1 == IF opts[3] = 1 /\ dec THEN C2S(c1, s0) ELSE s0
        c2 == IF opts[1] = 1 THEN Posed(c1, pose) ELSE c1
    IN <<c2, s1, dec>>
BadState(proto, p) == RawCart(proto, p)[1] = 9 \/ RawSph(proto, p)[1] = 9
                      \/ (HasAll(proto, ColNames) /\ HasR(proto, "isColorInvalid") /\ ~(IsFin(IV(p, Pos(proto, "isColorInvalid"))) /\ Val(IV(p, Pos(proto, "isColorInvalid"))) \in {0, 1}))
                      \/ (HasR(proto, "intensity") /\ HasR(proto, "isIntensityInvalid") /\ ~(IsFin(IV(p, Pos(proto, "isIntensityInvalid"))) /\ Val(IV(p, Pos(proto, "isIntensityInvalid"))) \in {0, 1}))

\* (b is the expected value; components that are not exact grid values -- inputs off the lattice -- are not compared)
CoordEq(a, b) == a[1] = b[1] /\ (a[1] = 2 \/ ~AllFin(b) \/ (a[2] = b[2] /\ a[3] = b[3] /\ a[4] = b[4]))
SphEq(a, b) == a[1] = b[1] /\ (a[1] = 2 \/ ~AllFin(b) \/ ((a[1] = 1 \/ a[2] = b[2]) /\ AzEq(a[3], b[3]) /\ a[4] = b[4]))

\* colour / intensity presence
ColorStored(proto, p) == HasAll(proto, ColNames) /\ (~HasR(proto, "isColorInvalid") \/ Val(IV(p, Pos(proto, "isColorInvalid"))) = 0)
IntensityStored(proto, p) == HasR(proto, "intensity") /\ (~HasR(proto, "isIntensityInvalid") \/ Val(IV(p, Pos(proto, "isIntensityInvalid"))) = 0)

\* the whole point
PointOk(proto, p, pose, ilim, clim, opts, out) ==
    LET g == Geometry(proto, p, pose, opts)
        irg == IF HasR(proto, "intensity")
               THEN RangeFor(proto[Pos(proto, "intensity")], IF IsSome(ilim) THEN ilim.some.min ELSE NoneV, IF IsSome(ilim) THEN ilim.some.max ELSE NoneV)
               ELSE [lo |-> Fin(0), hi |-> Fin(0)]
        crg(n, a, b) == RangeFor(proto[Pos(proto, n)], IF IsSome(clim) THEN clim.some[a] ELSE NoneV, IF IsSome(clim) THEN clim.some[b] ELSE NoneV)
        istored == IntensityStored(proto, p)
        cstored == ColorStored(proto, p)
    IN /\ CoordEq(out.c, g[1])
       /\ g[3] => SphEq(out.s, g[2])
       /\ out.row = (IF HasR(proto, "rowIndex") THEN Val(IV(p, Pos(proto, "rowIndex"))) ELSE -1)
       /\ out.column = (IF HasR(proto, "columnIndex") THEN Val(IV(p, Pos(proto, "columnIndex"))) ELSE -1)
       /\ IsSome(out.int) = istored
       /\ istored => ChannelOk(opts[5] = 1, Q4(p, Pos(proto, "intensity")), irg, out.int.some)
       /\ IsSome(out.col) = (cstored \/ (opts[4] = 1 /\ istored))
       /\ cstored =>
            /\ ChannelOk(opts[6] = 1, Q4(p, Pos(proto, "colorRed")), crg("colorRed", "rmin", "rmax"), out.col.some[1])
            /\ ChannelOk(opts[6] = 1, Q4(p, Pos(proto, "colorGreen")), crg("colorGreen", "gmin", "gmax"), out.col.some[2])
            /\ ChannelOk(opts[6] = 1, Q4(p, Pos(proto, "colorBlue")), crg("colorBlue", "bmin", "bmax"), out.col.some[3])
       \* intensity becomes grey colour when no colour exists
       /\ (~cstored /\ opts[4] = 1 /\ istored) => (out.col.some[1] = out.int.some /\ out.col.some[2] = out.int.some /\ out.col.some[3] = out.int.some)

\* which predicate of PointOk fails (diagnosis only)
=============================================================================
