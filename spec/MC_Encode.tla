------------------------------ MODULE MC_Encode ------------------------------
(***************************************************************************)
(* Bounded enumeration of scenes x layouts for the independent encoder.    *)
(* For every case: (1) model-level theorem: the decoder of E57Format reads *)
(* back exactly the scene from the encoder's bytes; (2) the case is        *)
(* printed as JSON so that the files can be materialised and handed to the *)
(* real reader (C03, C12 backward direction, C05 on foreign layouts).      *)
(***************************************************************************)
EXTENDS E57Encode, TLC, Json

CONSTANT Deep

IntL(n) == IF n >= 0 THEN NatToL64(n) ELSE Sub64(<<0, 0, 0, 0>>, NatToL64(-n))
IV(n) == <<3, IntL(n)[1], IntL(n)[2], IntL(n)[3], IntL(n)[4]>>
SV(n) == <<2, IntL(n)[1], IntL(n)[2], IntL(n)[3], IntL(n)[4]>>
LV(k, l) == <<k, l[1], l[2], l[3], l[4]>>
F32V(lo, hi) == <<0, lo, hi, 0, 0>>
F64V(a, b, c, d) == <<1, a, b, c, d>>

RInt(name, mn, mx) == [ns |-> NoneV, name |-> name, k |-> 3, min |-> SomeV(mn), max |-> SomeV(mx), scale |-> NoneV, offset |-> NoneV]
RSInt(name, mn, mx, sc, of) == [ns |-> NoneV, name |-> name, k |-> 2, min |-> SomeV(mn), max |-> SomeV(mx), scale |-> SomeV(sc), offset |-> SomeV(of)]
RF32(name) == [ns |-> NoneV, name |-> name, k |-> 0, min |-> NoneV, max |-> NoneV, scale |-> NoneV, offset |-> NoneV]
RF64(name) == [ns |-> NoneV, name |-> name, k |-> 1, min |-> NoneV, max |-> NoneV, scale |-> NoneV, offset |-> NoneV]

\* ---- scenes
Proto1 == <<RF32("cartesianX"), RF32("cartesianY"), RF32("cartesianZ"), RInt("columnIndex", IntL(0), IntL(7)), RInt("rowIndex", IntL(5), IntL(5)),
            RInt("intensity", IntL(-5), IntL(2042))>>
Pts1 == [k \in 1..9 |-> <<F32V(k * 11, 16256 + k), F32V(0, 16384), F32V(65535 - k, 49000), IV(k % 8), IV(5), IV(((k * 409) % 2048) - 5)>>]
Proto2 == <<RF64("cartesianX"), RF64("cartesianY"), RF64("cartesianZ"), RInt("intensity", I64Min, I64Max), RSInt("timeStamp", IntL(0), IntL(1), F64One, F64Zero)>>
Pts2 == [k \in 1..5 |-> <<F64V(k, 2 * k, 3 * k, 16368 + k), F64V(0, 0, 0, 49152), F64V(65535, 65535, 65535, 32751),
                           LV(3, IF k = 1 THEN I64Min ELSE IF k = 2 THEN I64Max ELSE IF k = 3 THEN IntL(-1) ELSE IF k = 4 THEN IntL(0) ELSE IntL(123456789)), SV(k % 2)>>]
\* half-defaulted 64-bit ranges (only one of minimum / maximum can be omitted in the XML)
Proto3 == <<RF32("cartesianX"), RF32("cartesianY"), RF32("cartesianZ"), RInt("intensity", IntL(0), I64Max), RInt("rowIndex", I64Min, IntL(5)),
            RSInt("timeStamp", IntL(-1), I64Max, F64One, F64Zero)>>
Pts3 == [k \in 1..6 |-> <<F32V(k, 16256), F32V(k, 16257), F32V(k, 16258),
                           LV(3, IF k = 1 THEN IntL(0) ELSE IF k = 2 THEN I64Max ELSE IntL(k * 1000003)),
                           LV(3, IF k = 1 THEN I64Min ELSE IF k = 2 THEN IntL(5) ELSE IntL(-k * 77)),
                           LV(2, IF k = 1 THEN IntL(-1) ELSE IF k = 2 THEN I64Max ELSE IntL(k))>>]
\* invalid-state records whose stored value can lie outside the documented set (the writer cannot produce these)
F1 == F32V(0, 16256)       \* 1.0
F2 == F32V(0, 16384)       \* 2.0
FN == F32V(0, 49184)       \* -2.5
F0 == F32V(0, 0)
Proto4 == <<RF32("cartesianX"), RF32("cartesianY"), RF32("cartesianZ"), RInt("cartesianInvalidState", IntL(0), IntL(3)),
            RInt("intensity", IntL(0), IntL(15)), RInt("isIntensityInvalid", IntL(0), IntL(3))>>
Pts4(badc, badi) == [k \in 1..7 |-> <<IF k % 2 = 0 THEN F1 ELSE F0, IF k % 3 = 0 THEN FN ELSE F0, IF k % 2 = 1 /\ k % 3 # 0 THEN F2 ELSE F0,
                                    IV(IF k = badc THEN 3 ELSE k % 3), IV((k * 5) % 16), IV(IF k = badi THEN 2 ELSE k % 2)>>]
\* one integer record of every width (all bit phases with 9 values)
WMin(w) == IF w = 64 THEN I64Min ELSE IntL(-3)
WProto(w) == <<RF32("cartesianX"), RF32("cartesianY"), RF32("cartesianZ"),
               RInt("intensity", WMin(w), Add64(WMin(w), MaskL(<<65535, 65535, 65535, 65535>>, w)))>>
WVal(w, k) == LET top == MaskL(<<65535, 65535, 65535, 65535>>, w)
                  alt == MaskL(<<21845, 21845, 21845, 21845>>, w)
                  u == IF k % 4 = 0 THEN top ELSE IF k % 4 = 1 THEN <<0, 0, 0, 0>> ELSE IF k % 4 = 2 THEN alt ELSE MaskL(<<k * 4099, 43690, k, 43690>>, w)
              IN LV(3, Add64(u, WMin(w)))
WPts(w) == [k \in 1..9 |-> <<F32V(k, 16000), F32V(k, 16001), F32V(k, 16002), WVal(w, k)>>]
Widths == IF Deep THEN 1..64 ELSE {1, 2, 3, 5, 7, 8, 9, 12, 15, 16, 17, 24, 31, 32, 33, 48, 57, 59, 61, 62, 63, 64}

AsSeq(f) == SubSeq(f, 1, Len(f))

\* ---- layouts for given stream lengths
MaxLen(streams) == LET S == {Len(streams[i]) : i \in 1..Len(streams)} IN CHOOSE m \in S : \A x \in S : x <= m
Lens(streams) == AsSeq([i \in 1..Len(streams) |-> Len(streams[i])])
AllTo(streams, c) == AsSeq([i \in 1..Len(streams) |-> MinN(c, Len(streams[i]))])
Skew(streams, c) == AsSeq([i \in 1..Len(streams) |-> (c * i) % (Len(streams[i]) + 1)])
D(to) == [t |-> "data", to |-> to]
Layouts(streams) ==
    LET m == MaxLen(streams)  full == Lens(streams)
        cuts == IF Deep THEN 0..m ELSE {0, 1, 2, 3, 4, 5, 7, 8, m \div 2, m - 1, m} \cap (0..m)
    IN {<<D(full)>>}
       \cup {<<D(AllTo(streams, c)), D(full)>> : c \in cuts}
       \cup {<<D(Skew(streams, c)), D(full)>> : c \in cuts}
       \cup {<<D(AllTo(streams, c)), D(AllTo(streams, c + 3)), D(full)>> : c \in cuts}
       \cup {<<D(AllTo(streams, c)), [t |-> "index", n |-> 2], D(full)>> : c \in {0, 4, m \div 2}}
       \cup {<<[t |-> "ignored", len |-> 8], D(AllTo(streams, c)), [t |-> "ignored", len |-> 4], D(full), [t |-> "index", n |-> 1]>> : c \in {0, 5}}
       \cup {<<D(AllTo(streams, 0)), D(AllTo(streams, c)), D(AllTo(streams, c)), D(full)>> : c \in {3, m \div 2}}
       \* non-data packets longer than a page: their body always straddles a page boundary
       \cup {<<D(AllTo(streams, c)), [t |-> "ignored", len |-> 1100], D(full)>> : c \in {0, 4, m \div 2}}
       \cup {<<D(AllTo(streams, c)), [t |-> "index", n |-> 70], D(AllTo(streams, c + 2)), [t |-> "ignored", len |-> 2048], D(full)>> : c \in {1, 6}}

\* section starts: 48 and every 4-aligned logical offset that puts the section header, the first packet header or its
\* stream table on, before or after the end of a page payload (1020)
Starts == <<48, 948, 952, 956, 960, 964, 968, 972, 976, 980, 984, 988, 992, 996, 1000, 1004, 1008, 1012, 1016, 1020, 1024, 2004, 2008, 2032>>

\* ---- model-level theorem: the decoder reads back the scene
RoundTrips(proto, pts, layout, lstart) ==
    LET sec == CvSectionBytes(lstart, proto, pts, layout)
        L == ZerosN(lstart) \o sec
        w == Walk(L, lstart + 32, lstart + Len(sec), Len(proto), SubSeq(EmptyStreams(Len(proto)), 1, Len(proto)), 0)
    IN /\ w.ok
       /\ U64Small(L, lstart + 16) = Log2Phys(lstart + 32)
       /\ \A i \in 1..Len(proto) : StreamEncodes(proto[i], w.streams[i], pts, i)

Case(name, proto, pts, layout, lstart) ==
    /\ Monotone(layout, AsSeq([i \in 1..Len(proto) |-> 0]))
    /\ LayoutComplete(AllStreams(proto, pts, 1), layout)
    /\ Assert(RoundTrips(proto, pts, layout, lstart), <<"decoder does not read back the encoder's scene", name, layout, lstart>>)
    /\ PrintT("CASE " \o ToJson([name |-> name, lstart |-> lstart, sec |-> CvSectionBytes(lstart, proto, pts, layout),
                                 proto |-> proto, pts |-> pts, layout |-> layout]))

SceneCases(name, proto, pts) ==
    LET ls == SetToSeq(Layouts(AllStreams(proto, pts, 1)))
    IN \A j \in 1..Len(ls) : Case(name \o "-" \o ToString(j), proto, pts, ls[j], Starts[((j + Len(name) + Len(proto)) % Len(Starts)) + 1])

ASSUME SceneCases("s1", Proto1, AsSeq(Pts1))
ASSUME SceneCases("s2", Proto2, AsSeq(Pts2))
ASSUME SceneCases("s3", Proto3, AsSeq(Pts3))
ASSUME SceneCases("s4ok", Proto4, AsSeq(Pts4(0, 0)))
ASSUME SceneCases("s4badc", Proto4, AsSeq(Pts4(5, 0)))
ASSUME SceneCases("s4badi", Proto4, AsSeq(Pts4(0, 3)))
ASSUME \A w \in Widths : SceneCases("w" \o ToString(w), WProto(w), AsSeq(WPts(w)))
\* the single-packet layout of the first scene at every start
ASSUME \A j \in 1..Len(Starts) : Case("s1-at-" \o ToString(Starts[j]), Proto1, AsSeq(Pts1), <<D(Lens(AllStreams(Proto1, AsSeq(Pts1), 1)))>>, Starts[j])
ASSUME \A j \in 1..Len(Starts) : Case("s1-two-at-" \o ToString(Starts[j]), Proto1, AsSeq(Pts1),
                                         <<D(AllTo(AllStreams(Proto1, AsSeq(Pts1), 1), (j * 3) % 30)), D(Lens(AllStreams(Proto1, AsSeq(Pts1), 1)))>>, Starts[j])
\* larger first sections: when such a file is copied, the second point cloud lands right behind the first one,
\* so its section start sweeps over the end of the page payload
BigPts(n) == [k \in 1..n |-> <<F32V(k * 11, 16256 + (k % 100)), F32V(k, 16384), F32V(65535 - k, 49000), IV(k % 8), IV(5), IV(((k * 409) % 2048) - 5)>>]
ASSUME \A n \in 50..84 : Case("big-" \o ToString(n), Proto1, AsSeq(BigPts(n)), <<D(Lens(AllStreams(Proto1, AsSeq(BigPts(n)), 1)))>>, 48)
\* an empty point cloud
ASSUME Case("empty", Proto1, <<>>, <<>>, 1016)

VARIABLE x
Init == x = 0
Next == x' = x
=============================================================================
