------------------------------ MODULE Trace_C07 ------------------------------
(***************************************************************************)
(* C07 at the file level: for every alteration of a finalized file (the    *)
(* trace carries which pages were altered as ground truth, each confirmed  *)
(* unsealed by an independent CRC) every read operation on one reader      *)
(* either fails or returns exactly what it returns on the unaltered file,  *)
(* whatever ran before; whole-file validation fails iff a page is altered. *)
(* The page-level mechanism (cache coherence after failures) is checked    *)
(* exhaustively in MC_PageR; this module binds the file-level operations.  *)
(***************************************************************************)
EXTENDS TraceBase

VARIABLES npages, ncases
vars == <<npages, ncases>>
E == Rec[l]

TInit == npages = 0 /\ ncases = 0 /\ l = 1 /\ TLCSet(1, <<0, "none">>)
T_Reset == IsEv("reset") /\ npages' = E.pages /\ ncases' = 0

Allowed == {"err", "same", "ok"}
T_Case ==
    /\ IsEv("c07")
    /\ ChkP(\A i \in 1..Len(E.pages) : E.pages[i] < npages, {"C07"}, "altered-page-index")
    /\ ChkP(\A i \in 1..Len(E.ops) : E.ops[i][2] # "panic", {"C07", "C08"}, "read-panicked")
    /\ ChkP(\A i \in 1..Len(E.ops) : E.ops[i][2] \in Allowed \cup {"panic"}, {"C07"}, "read-returned-data-that-differs-from-the-unaltered-file")
    /\ ChkP(E.rawxml \in Allowed, {"C07"}, "raw_xml-returned-different-data")
    /\ ChkP(E.vcrc # "panic", {"C07", "C08"}, "validate_crc-panicked")
    /\ ChkP((E.vcrc = "err") <=> (Len(E.pages) > 0), {"C07"}, "validate_crc-verdict")
    \* the unaltered file reads back completely
    /\ ChkP(Len(E.pages) = 0 => \A i \in 1..Len(E.ops) : E.ops[i][2] \in {"same", "ok"}, {"C07"}, "unaltered-file-failed")
    /\ ncases' = ncases + 1 /\ UNCHANGED npages

TNext == T_Reset \/ T_Case
TSpec == TInit /\ [][TNext]_<<vars, l>>
=============================================================================
