------------------------------ MODULE E57Format ------------------------------
(***************************************************************************)
(* An independent decoder of the binary E57 format (ASTM E2807), written   *)
(* from the standard: file header, blob sections, compressed-vector        *)
(* sections, data / index / ignored packets, bit-packed streams.           *)
(* All operators are pure; `img` is the physical file (with checksums),    *)
(* `L` its logical payload.  Physical offsets are translated with          *)
(* Phys2Log and must not point into checksum bytes.                         *)
(* Results of fallible operators are records [ok |-> TRUE, ...] or         *)
(* [ok |-> FALSE, why |-> "...", at |-> pos].                              *)
(***************************************************************************)
EXTENDS PageLayer

E57NS == "http://www.astm.org/COMMIT/E57/2010-e57-v1.0"
Sig   == <<65, 83, 84, 77, 45, 69, 53, 55>>         \* "ASTM-E57"

Bad(why, at) == [ok |-> FALSE, why |-> why, at |-> at]
InPayload(p) == (p % PAGE) < P

NoneV    == [none |-> 1]
SomeV(v) == [some |-> v]
IsSome(o) == "some" \in DOMAIN o

I64Min == <<0, 0, 0, 32768>>
I64Max == <<65535, 65535, 65535, 32767>>
F64One == <<0, 0, 0, 16368>>
F64Zero == <<0, 0, 0, 0>>

\* ---------------------------------------------------------------- file header
HdrMajor(img)  == U31(img, 8)
HdrMinor(img)  == U31(img, 12)
HdrLen(img)    == L64At(img, 16)
HdrXmlOff(img) == L64At(img, 24)
HdrXmlLen(img) == L64At(img, 32)
HdrPage(img)   == L64At(img, 40)

\* the header states the true file length, XML offset, XML length and page size
HeaderOk(img) ==
    /\ Len(img) >= PAGE
    /\ SubSeq(img, 1, 8) = Sig
    /\ HdrMajor(img) = 1 /\ HdrMinor(img) = 0
    /\ HdrPage(img) = NatToL64(PAGE)
    /\ HdrLen(img) = NatToL64(Len(img))
    /\ L64ToNat(HdrXmlOff(img)) >= 48
    /\ InPayload(L64ToNat(HdrXmlOff(img)))
    /\ L64ToNat(HdrXmlLen(img)) > 0
    /\ Phys2Log(L64ToNat(HdrXmlOff(img))) + L64ToNat(HdrXmlLen(img)) <= NPages(img) * P

XmlBytes(img, L) == Slice(L, Phys2Log(L64ToNat(HdrXmlOff(img))), L64ToNat(HdrXmlLen(img)))

\* ---------------------------------------------------------------- XML tree helpers
AttrSeq(n, key) == SelectSeq(n.attrs, LAMBDA a : a.k = key /\ a.ns = "")
HasAttr(n, key) == AttrSeq(n, key) # <<>>
AttrV(n, key)   == AttrSeq(n, key)[1].v
AttrS(n, key)   == IF HasAttr(n, key) THEN AttrV(n, key).s ELSE "<absent>"
Kids(n, name)   == SelectSeq(n.kids, LAMBDA k : k.ns = E57NS /\ k.name = name)
HasKid(n, name) == Kids(n, name) # <<>>
Kid(n, name)    == Kids(n, name)[1]
HasF(v, f)      == f \in DOMAIN v

\* prototype record as the standard defines it (defaults for omitted attributes)
XRec(n) ==
    LET ty == AttrS(n, "type")
        k  == IF ty = "Float" THEN (IF AttrS(n, "precision") = "single" THEN 0 ELSE 1)
              ELSE IF ty = "ScaledInteger" THEN 2 ELSE IF ty = "Integer" THEN 3 ELSE 9
        fl(key) == IF ~HasAttr(n, key) THEN NoneV
                   ELSE IF k = 0 THEN SomeV(AttrV(n, key).g) ELSE SomeV(AttrV(n, key).f)
        il(key, dflt) == IF HasAttr(n, key) THEN SomeV(AttrV(n, key).l) ELSE SomeV(dflt)
        dl(key, dflt) == IF HasAttr(n, key) THEN SomeV(AttrV(n, key).f) ELSE SomeV(dflt)
    IN [ns     |-> IF n.ns = E57NS THEN NoneV ELSE SomeV(n.pfx),
        name   |-> n.name,
        k      |-> k,
        min    |-> IF k <= 1 THEN fl("minimum") ELSE il("minimum", I64Min),
        max    |-> IF k <= 1 THEN fl("maximum") ELSE il("maximum", I64Max),
        scale  |-> IF k = 2 THEN dl("scale", F64One) ELSE NoneV,
        offset |-> IF k = 2 THEN dl("offset", F64Zero) ELSE NoneV]

RECURSIVE MapRec(_)
MapRec(kids) == IF kids = <<>> THEN <<>> ELSE <<XRec(Head(kids))>> \o MapRec(Tail(kids))

\* bits per value
Width(r) == IF r.k = 0 THEN 32 ELSE IF r.k = 1 THEN 64 ELSE BitLen(Sub64(r.max.some, r.min.some))

\* ---------------------------------------------------------------- sections
ZeroRun(L, from, n) == \A j \in 1..n : L[from + j] = 0

\* blob section at physical offset off holding `len` bytes
BlobAt(img, L, off, len) ==
    IF off < 48 \/ off >= Len(img) \/ ~InPayload(off) THEN Bad("blob offset not in payload", off)
    ELSE LET lp == Phys2Log(off)
         IN IF lp % 4 # 0 THEN Bad("blob section not 4-aligned", lp)
            ELSE IF lp + 16 + len > Len(L) THEN Bad("blob overruns file", lp)
            ELSE IF L[lp + 1] # 0 THEN Bad("blob section id", lp)
            ELSE [ok |-> TRUE, why |-> "", at |-> lp,
                  reserved0 |-> ZeroRun(L, lp + 1, 7),
                  seclen |-> L64At(L, lp + 8),
                  data |-> Slice(L, lp + 16, len),
                  padzero |-> ZeroRun(L, lp + 16 + len, (4 - (len % 4)) % 4)]
\* the standard: section length = header + data + padding to a multiple of 4
BlobStdLen(len) == NatToL64(16 + len + ((4 - (len % 4)) % 4))

ByteAt(s, i) == IF i <= Len(s) THEN s[i] ELSE 0

RECURSIVE U16Seq(_, _, _)
U16Seq(L, pos, n) == IF n = 0 THEN <<>> ELSE <<U16(L, pos)>> \o U16Seq(L, pos + 2, n - 1)
RECURSIVE SumSeq(_)
SumSeq(s) == IF s = <<>> THEN 0 ELSE Head(s) + SumSeq(Tail(s))

RECURSIVE AppendStreams(_, _, _, _, _)
AppendStreams(L, acc, sizes, start, i) ==
    IF i > Len(acc) THEN <<>>
    ELSE <<acc[i] \o SubSeq(L, start + 1, start + sizes[i])>> \o AppendStreams(L, acc, sizes, start + sizes[i], i + 1)

\* walk the packets of a compressed-vector section; acc = per-record byte streams
RECURSIVE Walk(_, _, _, _, _, _)
DataPacket(L, pos, secEnd, nrec, acc, npk) ==
    LET plen  == U16(L, pos + 2) + 1
        cnt   == U16(L, pos + 4)
    IN IF plen % 4 # 0 THEN Bad("data packet length not a multiple of 4", pos)
       ELSE IF pos + plen > secEnd THEN Bad("data packet overruns section", pos)
       ELSE IF cnt # nrec THEN Bad("bytestream count differs from prototype size", pos)
       ELSE IF 6 + 2 * nrec > plen THEN Bad("data packet too short for its stream table", pos)
       ELSE LET sizes == U16Seq(L, pos + 6, nrec)
                used  == 6 + 2 * nrec + SumSeq(sizes)
            IN IF used > plen THEN Bad("stream sizes exceed packet length", pos)
               ELSE IF plen - used > 3 THEN Bad("data packet padded by more than 3 bytes", pos)
               ELSE IF ~ZeroRun(L, pos + used, plen - used) THEN Bad("data packet padding not zero", pos)
               ELSE Walk(L, pos + plen, secEnd, nrec,
                         AppendStreams(L, acc, sizes, pos + 6 + 2 * nrec, 1), npk + 1)
Walk(L, pos, secEnd, nrec, acc, npk) ==
    IF pos = secEnd THEN [ok |-> TRUE, why |-> "", at |-> pos, streams |-> acc, npk |-> npk]
    ELSE IF pos + 4 > secEnd THEN Bad("packet header overruns section", pos)
    ELSE IF L[pos + 1] = 1 THEN DataPacket(L, pos, secEnd, nrec, acc, npk)
    ELSE IF L[pos + 1] \in {0, 2}
         THEN LET plen == U16(L, pos + 2) + 1
              IN IF plen % 4 # 0 \/ pos + plen > secEnd THEN Bad("index/ignored packet length", pos)
                 ELSE Walk(L, pos + plen, secEnd, nrec, acc, npk)
    ELSE Bad("unknown packet type", pos)

EmptyStreams(n) == [i \in 1..n |-> <<>>]

\* compressed-vector section at physical offset off with prototype of nrec records
CvAt(img, L, off, nrec) ==
    IF off < 48 \/ off >= Len(img) \/ ~InPayload(off) THEN Bad("section offset not in payload", off)
    ELSE LET lp == Phys2Log(off)
         IN IF lp % 4 # 0 THEN Bad("section not 4-aligned", lp)
            ELSE IF lp + 32 > Len(L) THEN Bad("section header overruns file", lp)
            ELSE IF L[lp + 1] # 1 THEN Bad("compressed vector section id", lp)
            ELSE IF ~ZeroRun(L, lp + 1, 7) THEN Bad("reserved bytes of section header", lp)
            ELSE LET seclen == U64Small(L, lp + 8)
                     doff   == U64Small(L, lp + 16)
                 IN IF seclen < 32 \/ seclen % 4 # 0 \/ lp + seclen > Len(L) THEN Bad("section length", lp)
                    ELSE IF doff < 0 \/ doff >= Len(img) + 1 \/ ~InPayload(doff) THEN Bad("data offset in checksum bytes or outside file", lp)
                    ELSE LET dl == Phys2Log(doff)
                         IN IF dl < lp + 32 \/ dl > lp + seclen \/ dl % 4 # 0 THEN Bad("data offset outside its section", dl)
                            ELSE Walk(L, dl, lp + seclen, nrec, SubSeq(EmptyStreams(nrec), 1, nrec), 0)

\* ---------------------------------------------------------------- bit-level codec
\* limb j (0..3) of the k-th value (0-based) of width w in stream s, LSB-first
LimbOf(s, w, k, j) ==
    IF 16 * j >= w THEN 0
    ELSE LET nb == MinN(16, w - 16 * j)
             b  == k * w + 16 * j
             q  == b \div 8
             r  == b % 8
             x  == ByteAt(s, q + 1) + 256 * ByteAt(s, q + 2) + 65536 * ByteAt(s, q + 3)
         IN (x \div Pow2(r)) % Pow2(nb)
DecodeU(s, w, k) == <<LimbOf(s, w, k, 0), LimbOf(s, w, k, 1), LimbOf(s, w, k, 2), LimbOf(s, w, k, 3)>>
F32At(s, k) == <<s[4 * k + 1] + 256 * s[4 * k + 2], s[4 * k + 3] + 256 * s[4 * k + 4], 0, 0>>
F64At(s, k) == <<s[8 * k + 1] + 256 * s[8 * k + 2], s[8 * k + 3] + 256 * s[8 * k + 4],
                 s[8 * k + 5] + 256 * s[8 * k + 6], s[8 * k + 7] + 256 * s[8 * k + 8]>>

\* the value stored at index k of record r's stream, as 64-bit limbs of the API value
StoredValue(r, s, k) ==
    IF r.k = 0 THEN F32At(s, k)
    ELSE IF r.k = 1 THEN F64At(s, k)
    ELSE Add64(DecodeU(s, Width(r), k), r.min.some)

\* exact stream length for n values and zero padding bits at the end
StreamShapeOk(r, s, n) ==
    LET w == Width(r)   bits == n * w
    IN /\ Len(s) = CeilDiv(bits, 8)
       /\ (bits % 8 # 0) => (s[Len(s)] \div Pow2(bits % 8)) = 0

\* trace value <<kind, l0, l1, l2, l3>>
ValKind(v) == v[1]
ValLimbs(v) == <<v[2], v[3], v[4], v[5]>>
\* integer v lies in the declared range of r
InRange(r, v) == LeS64(r.min.some, ValLimbs(v)) /\ LeS64(ValLimbs(v), r.max.some)

\* C12 in the forward direction: the stream is exactly the LSB-first packing of (value - min)
\* at the width BitLen(max - min); floats are 4/8 little-endian bytes
StreamEncodes(r, s, pts, i) ==
    /\ StreamShapeOk(r, s, Len(pts))
    /\ \A k \in 1..Len(pts) :
         /\ ValKind(pts[k][i]) = r.k
         /\ StoredValue(r, s, k - 1) = ValLimbs(pts[k][i])
=============================================================================
