------------------------------- MODULE E57Spec -------------------------------
(***************************************************************************)
(* Abstract (layout-free) state machine of the file-level API:             *)
(* E57Writer / PointCloudWriter / ImageWriter accumulate a *scene*;        *)
(* finalize produces a file that the independent decoder (E57Format) must  *)
(* decode to exactly that scene; E57Reader operations return functions of  *)
(* the scene.  One action per public call.  The acceptance relation says   *)
(* for every call whether it must succeed, must fail, or may do either.    *)
(***************************************************************************)
EXTENDS E57Format, FiniteSets

VARIABLES
    sc,     \* the scene handed to the writer so far
    file,   \* the finalized file: [img, L, xml] (img = <<>> before finalize)
    res     \* result of the last call

evars == <<sc, file, res>>

Ok(v) == [ok |-> v]
Err   == [err |-> 1]
IsOk(r)  == "ok" \in DOMAIN r
IsErr(r) == "err" \in DOMAIN r

NoPc  == [open |-> FALSE, guid |-> "", proto |-> <<>>, pts |-> <<>>, reals |-> <<>>, meta |-> <<>>]
NoImg == [open |-> FALSE, guid |-> "", reps |-> <<>>, meta |-> <<>>]
EmptyScene == [guid |-> "", root |-> <<>>, exts |-> <<>>, blobs |-> <<>>, pcs |-> <<>>, images |-> <<>>,
               pc |-> NoPc, im |-> NoImg, fin |-> FALSE, dead |-> FALSE, custom |-> FALSE,
               foreign |-> FALSE]     \* foreign: the file was not written by the crate's writer (s_scene)

EInit == sc = EmptyScene /\ file = [img |-> <<>>, L |-> <<>>, xml |-> <<>>] /\ res = Ok(0)

\* ------------------------------------------------------------------ acceptance relation
StdNames == {"cartesianX", "cartesianY", "cartesianZ", "cartesianInvalidState",
             "sphericalRange", "sphericalAzimuth", "sphericalElevation", "sphericalInvalidState",
             "intensity", "isIntensityInvalid", "colorRed", "colorGreen", "colorBlue", "isColorInvalid",
             "rowIndex", "columnIndex", "returnCount", "returnIndex", "timeStamp", "isTimeStampInvalid"}

IsStd(r) == ~IsSome(r.ns)
HasName(proto, n) == \E i \in 1..Len(proto) : IsStd(proto[i]) /\ proto[i].name = n
RecOf(proto, n) == proto[CHOOSE i \in 1..Len(proto) : IsStd(proto[i]) /\ proto[i].name = n]
CountOf(proto, names) == Cardinality({n \in names : HasName(proto, n)})
IsIntRange(r, lo, hi) == r.k = 3 /\ r.min.some = NatToL64(lo) /\ r.max.some = NatToL64(hi)

GroupOk(proto, names) == CountOf(proto, names) \in {0, Cardinality(names)}
FlagOk(proto, flag, needs, hi) ==
    HasName(proto, flag) => (HasName(proto, needs) /\ IsIntRange(RecOf(proto, flag), 0, hi))
IntTyped(proto, n) == HasName(proto, n) => RecOf(proto, n).k = 3
NotInt(proto, n)   == HasName(proto, n) => RecOf(proto, n).k # 3

\* the documented prototype rules
ProtoRulesOk(proto) ==
    /\ GroupOk(proto, {"cartesianX", "cartesianY", "cartesianZ"})
    /\ GroupOk(proto, {"sphericalRange", "sphericalAzimuth", "sphericalElevation"})
    /\ GroupOk(proto, {"colorRed", "colorGreen", "colorBlue"})
    /\ GroupOk(proto, {"returnCount", "returnIndex"})
    /\ (HasName(proto, "cartesianX") \/ HasName(proto, "sphericalAzimuth"))
    /\ FlagOk(proto, "cartesianInvalidState", "cartesianX", 2)
    /\ FlagOk(proto, "sphericalInvalidState", "sphericalAzimuth", 2)
    /\ FlagOk(proto, "isColorInvalid", "colorRed", 1)
    /\ FlagOk(proto, "isIntensityInvalid", "intensity", 1)
    /\ FlagOk(proto, "isTimeStampInvalid", "timeStamp", 1)
    /\ NotInt(proto, "sphericalAzimuth") /\ NotInt(proto, "sphericalElevation")
    /\ IntTyped(proto, "rowIndex") /\ IntTyped(proto, "columnIndex")
    /\ IntTyped(proto, "returnCount") /\ IntTyped(proto, "returnIndex")

\* names: the harness marks each extension name as well-formed or not (character classes are
\* a string-level matter TLC has no operators for); registration is decided here
ExtRegistered(r, exts) == IsStd(r) \/ \E i \in 1..Len(exts) : exts[i].ns = r.ns.some
\* (as a cardinality, not a double quantifier: prototypes with 10^4 records occur)
NoDuplicates(proto) == Cardinality({<<proto[i].ns, proto[i].name>> : i \in 1..Len(proto)}) = Len(proto)
RangesSane(proto) == \A i \in 1..Len(proto) : proto[i].k >= 2 => LeS64(proto[i].min.some, proto[i].max.some)
SomeWidth(proto) == \E i \in 1..Len(proto) : Width(proto[i]) > 0
\* at least one point fits into a data packet (65535 bytes less header, stream table, one partial byte per stream and the
\* writer's safety margin of 500 bytes); PacketWriterSpec shows what happens otherwise
RECURSIVE SumWidths(_, _, _)
\* (by halving: prototypes with 10^4 records would otherwise recurse 10^4 deep)
SumWidths(proto, lo, hi) == IF lo > hi THEN 0 ELSE IF lo = hi THEN Width(proto[lo])
                            ELSE SumWidths(proto, lo, (lo + hi) \div 2) + SumWidths(proto, (lo + hi) \div 2 + 1, hi)
FitsPacket(proto) == (65535 - (6 + 2 * Len(proto)) - Len(proto) - 500) * 8 >= SumWidths(proto, 1, Len(proto))

\* "ok" must be accepted, "err" must be rejected, "any" is not settled by the documented rules
ProtoVerdict(proto, exts, namesok) ==
    IF ~ProtoRulesOk(proto) \/ ~namesok \/ (\E i \in 1..Len(proto) : ~ExtRegistered(proto[i], exts)) THEN "err"
    ELSE IF ~NoDuplicates(proto) \/ ~RangesSane(proto) \/ ~SomeWidth(proto) \/ ~FitsPacket(proto) THEN "any"
    ELSE "ok"

PointFits(proto, vals) ==
    /\ Len(vals) = Len(proto)
    /\ \A i \in 1..Len(proto) :
         /\ ValKind(vals[i]) = proto[i].k
         /\ proto[i].k >= 2 => InRange(proto[i], vals[i])

\* ------------------------------------------------------------------ writer actions
W_New(guid, r) ==
    /\ sc' = [EmptyScene EXCEPT !.guid = guid]
    /\ res' = r /\ UNCHANGED file

\* root-level and per-object metadata are kept as sequences of <<field, value>> pairs (last wins)
W_SetRoot(f, v) == sc' = [sc EXCEPT !.root = Append(@, <<f, v>>)] /\ res' = Ok(0) /\ UNCHANGED file

W_Ext(ns, url, nameok, r) ==
    \* one prefix per URL and one URL per prefix: two prefixes for one URL are the same XML namespace
    /\ LET dup == \E i \in 1..Len(sc.exts) : sc.exts[i].ns = ns \/ sc.exts[i].url = url
       IN /\ IsOk(r) <=> (nameok /\ ~dup)
          /\ sc' = IF IsOk(r) THEN [sc EXCEPT !.exts = Append(@, [ns |-> ns, url |-> url])] ELSE sc
    /\ res' = r /\ UNCHANGED file

\* add_blob: the descriptor must state the true length; the offset is taken from the call
W_Blob(data, r) ==
    /\ sc' = IF IsOk(r) THEN [sc EXCEPT !.blobs = Append(@, [off |-> r.ok.off, len |-> r.ok.len, data |-> data, tag |-> "direct"])]
             ELSE [sc EXCEPT !.dead = TRUE]
    /\ res' = r /\ UNCHANGED file

PC_New(guid, proto, r) ==
    /\ ~sc.pc.open
    /\ sc' = IF IsOk(r) THEN [sc EXCEPT !.pc = [open |-> TRUE, guid |-> guid, proto |-> proto, pts |-> <<>>, reals |-> <<>>, meta |-> <<>>]]
             ELSE sc
    /\ res' = r /\ UNCHANGED file

PC_Set(f, v) == sc.pc.open /\ sc' = [sc EXCEPT !.pc.meta = Append(@, <<f, v>>)] /\ res' = Ok(0) /\ UNCHANGED file

PC_Points(pts, reals) ==
    /\ sc.pc.open
    /\ sc' = [sc EXCEPT !.pc.pts = @ \o pts, !.pc.reals = @ \o reals]
    /\ res' = Ok(0) /\ UNCHANGED file

PC_PointRejected(r) == sc.pc.open /\ sc' = sc /\ res' = r /\ UNCHANGED file

PC_Finalize(r) ==
    /\ sc.pc.open
    /\ sc' = IF IsOk(r) THEN [sc EXCEPT !.pcs = Append(@, sc.pc), !.pc = NoPc]
             ELSE [sc EXCEPT !.pc = NoPc, !.dead = TRUE]
    /\ res' = r /\ UNCHANGED file
PC_Drop == sc.pc.open /\ sc' = [sc EXCEPT !.pc = NoPc] /\ res' = Ok(0) /\ UNCHANGED file

IM_New(guid, r) ==
    /\ sc' = IF IsOk(r) THEN [sc EXCEPT !.im = [open |-> TRUE, guid |-> guid, reps |-> <<>>, meta |-> <<>>]] ELSE sc
    /\ res' = r /\ UNCHANGED file
IM_Set(f, v) == sc.im.open /\ sc' = [sc EXCEPT !.im.meta = Append(@, <<f, v>>)] /\ res' = Ok(0) /\ UNCHANGED file
IsProjection(kind) == kind \in {"pinhole", "spherical", "cylindrical"}
HasProjection(reps) == \E i \in 1..Len(reps) : IsProjection(reps[i].kind)
IM_Add(rep, r) ==
    /\ sc.im.open
    \* a second projection must be refused
    /\ (IsProjection(rep.kind) /\ HasProjection(sc.im.reps)) => IsErr(r)
    /\ sc' = IF IsOk(r) THEN [sc EXCEPT !.im.reps = Append(@, rep)] ELSE sc
    /\ res' = r /\ UNCHANGED file
IM_Finalize(r) ==
    /\ sc.im.open
    /\ (sc.im.reps = <<>>) => IsErr(r)
    /\ sc' = IF IsOk(r) THEN [sc EXCEPT !.images = Append(@, sc.im), !.im = NoImg] ELSE [sc EXCEPT !.im = NoImg]
    /\ res' = r /\ UNCHANGED file
IM_Drop == sc.im.open /\ sc' = [sc EXCEPT !.im = NoImg] /\ res' = Ok(0) /\ UNCHANGED file

\* `custom`: the caller transformed the XML (finalize_customized_xml); what the transformer did to
\* namespace declarations is the caller's business
W_Finalize(r, custom) ==
    /\ (sc.guid = "") => IsErr(r)
    /\ sc' = [sc EXCEPT !.fin = IsOk(r), !.custom = custom]
    /\ res' = r /\ UNCHANGED file

\* ------------------------------------------------------------------ the finalized file
\* (the predicates below are evaluated on the bytes the real writer produced)
RootEl(xml) == xml.root
Data3D(xml) == IF HasKid(RootEl(xml), "data3D") THEN Kids(Kid(RootEl(xml), "data3D"), "vectorChild") ELSE <<>>
Images2D(xml) == IF HasKid(RootEl(xml), "images2D") THEN Kids(Kid(RootEl(xml), "images2D"), "vectorChild") ELSE <<>>
PointsEl(pcnode) == Kid(pcnode, "points")
ProtoEl(pcnode)  == Kid(PointsEl(pcnode), "prototype")
ElementKids(n)   == n.kids
XProto(pcnode)   == MapRec(ElementKids(ProtoEl(pcnode)))
XOffset(pcnode)  == L64ToNat(AttrV(PointsEl(pcnode), "fileOffset").u)
XCount(pcnode)   == AttrV(PointsEl(pcnode), "recordCount").u

PcNodeShapeOk(pcnode) ==
    /\ AttrS(pcnode, "type") = "Structure"
    /\ HasKid(pcnode, "points")
    /\ AttrS(PointsEl(pcnode), "type") = "CompressedVector"
    /\ HasAttr(PointsEl(pcnode), "fileOffset") /\ HasF(AttrV(PointsEl(pcnode), "fileOffset"), "u")
    /\ HasAttr(PointsEl(pcnode), "recordCount") /\ HasF(AttrV(PointsEl(pcnode), "recordCount"), "u")
    /\ L64ToNat(AttrV(PointsEl(pcnode), "fileOffset").u) >= 0
    /\ HasKid(PointsEl(pcnode), "prototype")
    /\ AttrS(ProtoEl(pcnode), "type") = "Structure"

\* blob descriptors of an image node, in document order: <<[tag, off, len]>>
BlobNodeOk(b) == AttrS(b, "type") = "Blob" /\ HasAttr(b, "fileOffset") /\ HasF(AttrV(b, "fileOffset"), "i")
                 /\ HasAttr(b, "length") /\ HasF(AttrV(b, "length"), "i")
RepNames == <<"visualReferenceRepresentation", "pinholeRepresentation", "sphericalRepresentation", "cylindricalRepresentation">>
RepKind(name) == IF name = "visualReferenceRepresentation" THEN "visual"
                 ELSE IF name = "pinholeRepresentation" THEN "pinhole"
                 ELSE IF name = "sphericalRepresentation" THEN "spherical" ELSE "cylindrical"
RepNodes(imnode) == SelectSeq(imnode.kids, LAMBDA k : k.ns = E57NS /\ k.name \in {RepNames[1], RepNames[2], RepNames[3], RepNames[4]})
RepImageNode(rep) == IF HasKid(rep, "jpegImage") THEN Kid(rep, "jpegImage") ELSE Kid(rep, "pngImage")
RepFmt(rep) == IF HasKid(rep, "jpegImage") THEN "jpeg" ELSE "png"
=============================================================================
