//! Page layer (PagedWriter / PagedReader): replay of TLC-exported edges and
//! recording of randomised histories as NDJSON traces for Trace_Page.tla.
use crate::dev::Dev;
use crate::util::*;
use e57::verif::{PagedReader, PagedWriter};
use serde_json::{json, Value};
use std::io::{BufRead, BufReader, Read, Write};

pub fn pat_data(salt: usize, n: usize) -> Vec<u8> {
    (0..n).map(|j| (((7 * salt + j + 1) % 251) + 1) as u8).collect()
}

fn sums(img: &[u8]) -> Value {
    let n = img.len() / PAGE;
    Value::Array(
        (0..n)
            .map(|k| jbytes(&img[k * PAGE + PAYLOAD..(k + 1) * PAGE]))
            .collect(),
    )
}

fn all_sealed(img: &[u8]) -> bool {
    img.len() % PAGE == 0 && (0..img.len() / PAGE).all(|k| page_valid(img, k))
}

/// Apply one writer op (JSON as exported by MC_PageW) and return the result as the spec names it.
fn apply_w(w: &mut PagedWriter<Dev>, op: &Value) -> Value {
    match op["op"].as_str().unwrap_or("") {
        "write_all" => {
            let d = pat_data(op["salt"].as_u64().unwrap() as usize, op["n"].as_u64().unwrap() as usize);
            match w.write_all(&d) {
                Ok(()) => json!({"ok":0}),
                Err(_) => json!({"err":1}),
            }
        }
        "write1" => {
            let d = pat_data(op["salt"].as_u64().unwrap() as usize, op["n"].as_u64().unwrap() as usize);
            match w.write(&d) {
                Ok(n) => json!({"ok":n}),
                Err(_) => json!({"err":1}),
            }
        }
        "flush" => match w.flush() {
            Ok(()) => json!({"ok":0}),
            Err(_) => json!({"err":1}),
        },
        "align" => match w.align() {
            Ok(()) => json!({"ok":0}),
            Err(_) => json!({"err":1}),
        },
        "pos" => match w.physical_position() {
            Ok(p) => json!({"ok":p}),
            Err(_) => json!({"err":1}),
        },
        "size" => match w.physical_size() {
            Ok(p) => json!({"ok":p}),
            Err(_) => json!({"err":1}),
        },
        "seek" => match w.physical_seek(op["pos"].as_u64().unwrap()) {
            Ok(()) => json!({"ok":0}),
            Err(_) => json!({"err":1}),
        },
        other => json!(format!("unknown op {other}")),
    }
}

/// Observer suffix: everything the public surface exposes about the state.
fn observe_w(w: &mut PagedWriter<Dev>, dev: &Dev) -> Value {
    let pos = w.physical_position().ok();
    let _ = w.flush();
    let img1 = dev.snapshot();
    let _ = w.write_all(&[255u8]);
    let _ = w.flush();
    let img2 = dev.snapshot();
    json!({
        "pos": pos, "size": img1.len(), "sums": sums(&img1),
        "size2": img2.len(), "sums2": sums(&img2),
        "sealed": all_sealed(&img1) && all_sealed(&img2),
    })
}

/// Replay exported writer edges. Output: one line per disagreeing edge, and a summary line.
pub fn replay_w(edges: &str, out: &str) -> std::io::Result<()> {
    let f = BufReader::new(std::fs::File::open(edges)?);
    let mut o = std::fs::File::create(out)?;
    let (mut n, mut bad, mut panics) = (0u64, 0u64, 0u64);
    for line in f.lines() {
        let line = line?;
        if line.trim().is_empty() {
            continue;
        }
        let e: Value = serde_json::from_str(&line).expect("edge json");
        n += 1;
        let h = e["h"].as_array().expect("history");
        let r = catch(|| {
            let dev = Dev::new();
            let mut w = PagedWriter::new(dev.clone()).expect("new");
            let mut last = json!({"ok":0});
            for op in h {
                last = apply_w(&mut w, op);
            }
            let failed = e["obs"].get("failed").is_some();
            let obs = if failed { json!({"failed": true}) } else { observe_w(&mut w, &dev) };
            (last, obs)
        });
        match r {
            Ok((last, obs)) => {
                let exp = &e["obs"];
                let same = last == e["res"]
                    && if exp.get("failed").is_some() {
                        true
                    } else {
                        obs["pos"] == exp["pos"]
                            && obs["size"] == exp["size"]
                            && obs["sums"] == exp["sums"]
                            && obs["size2"] == exp["size2"]
                            && obs["sums2"] == exp["sums2"]
                            && obs["sealed"] == json!(true)
                    };
                if !same {
                    bad += 1;
                    writeln!(o, "{}", json!({"kind":"mismatch","edge":n,"h":h,"exp_res":e["res"],"got_res":last,"exp":exp,"got":obs}))?;
                }
            }
            Err(msg) => {
                panics += 1;
                writeln!(o, "{}", json!({"kind":"panic","edge":n,"h":h,"msg":msg}))?;
            }
        }
    }
    writeln!(o, "{}", json!({"kind":"summary","edges":n,"mismatches":bad,"panics":panics}))?;
    Ok(())
}

// ---------------------------------------------------------------------------------------------
// Trace recording
// ---------------------------------------------------------------------------------------------

pub struct TraceOut {
    pub f: std::io::BufWriter<std::fs::File>,
    pub events: u64,
    /// when set, every event is stamped with "fic": did an injected device fault fire since the
    /// previous event (i.e. during the call this event records)
    pub watch: Option<Dev>,
    pub last_faulted: bool,
    /// keep a copy of the events in memory (used by the fault sweeps)
    pub keep: Option<Vec<Value>>,
}
impl TraceOut {
    pub fn create(path: &str) -> std::io::Result<Self> {
        Ok(TraceOut { f: std::io::BufWriter::new(std::fs::File::create(path)?), events: 0, watch: None, last_faulted: false, keep: None })
    }
    pub fn append(path: &str) -> std::io::Result<Self> {
        let f = std::fs::OpenOptions::new().create(true).append(true).open(path)?;
        Ok(TraceOut { f: std::io::BufWriter::new(f), events: 0, watch: None, last_faulted: false, keep: None })
    }
    pub fn ev(&mut self, mut v: Value) {
        if let Some(d) = &self.watch {
            let now = d.faulted();
            if v.get("fic").is_none() {
                v["fic"] = json!(if now && !self.last_faulted { 1 } else { 0 });
            }
            self.last_faulted = now;
        }
        if let Some(k) = &mut self.keep {
            k.push(v.clone());
        }
        // line separators other than LF inside strings would split the line for readers that honour them (TLC's NDJSON reader)
        let line = v.to_string().replace('\u{85}', "\\u0085").replace('\u{2028}', "\\u2028").replace('\u{2029}', "\\u2029");
        writeln!(self.f, "{}", line).expect("write trace");
        self.events += 1;
    }
}

/// Record one writer op as a trace event (arguments AND result, device snapshot at flush points).
fn trace_w(t: &mut TraceOut, w: &mut PagedWriter<Dev>, dev: &Dev, op: &Value) -> Value {
    let name = op["op"].as_str().unwrap_or("");
    let res = apply_w(w, op);
    match name {
        "write_all" | "write1" => {
            let d = pat_data(op["salt"].as_u64().unwrap() as usize, op["n"].as_u64().unwrap() as usize);
            t.ev(json!({"ev": format!("w_{name}"), "b": jbytes(&d), "res": res}));
        }
        "flush" => t.ev(json!({"ev": "w_flush", "res": res, "dev": jbytes(&dev.snapshot())})),
        "seek" => t.ev(json!({"ev":"w_seek","pos":op["pos"],"res":res})),
        _ => t.ev(json!({"ev": format!("w_{name}"), "res": res})),
    }
    res
}

/// Record the trace of one given history (used to confirm a replay mismatch through TLC).
pub fn trace_history(hist: &str, out: &str) -> std::io::Result<()> {
    let h: Value = serde_json::from_str(&std::fs::read_to_string(hist)?).expect("history json");
    let mut t = TraceOut::create(out)?;
    t.ev(json!({"ev":"reset","run":0}));
    let dev = Dev::new();
    let mut w = PagedWriter::new(dev.clone()).expect("new");
    for op in h.as_array().expect("array") {
        let r = trace_w(&mut t, &mut w, &dev, op);
        if r.get("err").is_some() {
            break;
        }
    }
    // observer suffix, recorded as ordinary events
    trace_w(&mut t, &mut w, &dev, &json!({"op":"pos"}));
    trace_w(&mut t, &mut w, &dev, &json!({"op":"flush"}));
    trace_w(&mut t, &mut w, &dev, &json!({"op":"write_all","n":1,"salt":35}));
    trace_w(&mut t, &mut w, &dev, &json!({"op":"flush"}));
    Ok(())
}

fn boundary_len(r: &mut Rng) -> usize {
    let base = [0usize, 1, 2, 3, 4, 5, 7, 8, 16, 31, 48, 100, 509, 510, 1016, 1017, 1018, 1019, 1020, 1021, 1022, 1023, 1024, 1025, 2039, 2040, 2041, 3060];
    if r.chance(3, 4) {
        *r.pick(&base)
    } else {
        r.below(2600) as usize
    }
}

/// Randomised writer/reader histories with sizes and positions concentrated on page boundaries.
pub fn fuzz(seed: u64, runs: usize, nops: usize, out: &str) -> std::io::Result<()> {
    let mut t = TraceOut::create(out)?;
    let mut rng = Rng::new(seed);
    for run in 0..runs {
        t.ev(json!({"ev":"reset","run":run,"seed":seed}));
        let dev = Dev::new();
        let mut w = PagedWriter::new(dev.clone()).expect("new");
        let maxpages = 3 + (run % 4);
        let mut k = 0;
        let mut failed = false;
        let wops = nops * 2 / 3;
        while k < wops {
            k += 1;
            let size_now = dev.len();
            let choice = rng.below(100);
            let op = if choice < 40 {
                if size_now > maxpages * PAGE {
                    json!({"op":"pos"})
                } else {
                    json!({"op": if rng.chance(1,6) {"write1"} else {"write_all"}, "n": boundary_len(&mut rng).min(2600), "salt": rng.below(500)})
                }
            } else if choice < 50 {
                json!({"op":"flush"})
            } else if choice < 60 {
                json!({"op":"align"})
            } else if choice < 68 {
                json!({"op":"pos"})
            } else if choice < 76 {
                json!({"op":"size"})
            } else {
                // seek: to a boundary-ish position inside the file (rarely outside: refused, run ends)
                let cur = w.physical_position().unwrap_or(0);
                let cur_end = if cur % PAGE as u64 > 0 { (cur / PAGE as u64 + 1) * PAGE as u64 } else { cur };
                let end = cur_end.max(size_now as u64);
                let pages = end / PAGE as u64;
                let pg = rng.below(pages.max(1));
                let offs = [0u64, 1, 3, 4, 16, 48, 500, 1015, 1016, 1017, 1018, 1019];
                let mut pos = (pg * PAGE as u64 + *rng.pick(&offs)).min(end);
                if rng.chance(1, 6) {
                    pos = end;
                }
                if rng.chance(1, 60) {
                    pos = pg * PAGE as u64 + 1020 + rng.below(4);
                }
                if rng.chance(1, 60) {
                    pos = end + 1 + rng.below(3000);
                }
                json!({"op":"seek","pos":pos})
            };
            let r = trace_w(&mut t, &mut w, &dev, &op);
            if r.get("err").is_some() {
                failed = true;
                break;
            }
        }
        if failed {
            // behaviour after a refused seek is not claimed (DESIGN 7.4, D-11)
            continue;
        }
        // final flush point, then read side on the produced image
        let r = trace_w(&mut t, &mut w, &dev, &json!({"op":"flush"}));
        if r.get("ok").is_none() {
            continue;
        }
        drop(w);
        let img = dev.snapshot();
        if img.is_empty() {
            continue;
        }
        fuzz_reader(&mut t, &mut rng, &img, nops - wops);
    }
    t.f.flush()?;
    Ok(())
}

pub fn apply_r(r: &mut PagedReader<Dev>, op: &Value) -> Value {
    match op["op"].as_str().unwrap_or("") {
        "rseek" => match r.seek_physical(op["off"].as_u64().unwrap()) {
            Ok(l) => json!({"ok":l}),
            Err(_) => json!({"err":1}),
        },
        "rread" => {
            let mut buf = vec![0u8; op["n"].as_u64().unwrap() as usize];
            match r.read(&mut buf) {
                Ok(n) => json!({"ok":jbytes(&buf[..n])}),
                Err(_) => json!({"err":1}),
            }
        }
        "ralign" => match r.align() {
            Ok(()) => json!({"ok":0}),
            Err(_) => json!({"err":1}),
        },
        other => json!(format!("unknown op {other}")),
    }
}

fn trace_r(t: &mut TraceOut, r: &mut PagedReader<Dev>, op: &Value) -> Value {
    let res = apply_r(r, op);
    match op["op"].as_str().unwrap_or("") {
        "rseek" => t.ev(json!({"ev":"r_seek","off":op["off"],"res":res})),
        "rread" => t.ev(json!({"ev":"r_read","n":op["n"],"res":res})),
        _ => t.ev(json!({"ev":"r_align","res":res})),
    }
    res
}

pub fn fuzz_reader(t: &mut TraceOut, rng: &mut Rng, img: &[u8], nops: usize) {
    let dev = Dev::from_bytes(img.to_vec());
    match PagedReader::new(dev, PAGE as u64) {
        Ok(mut r) => {
            t.ev(json!({"ev":"r_open","img":jbytes(img),"res":{"ok":0}}));
            for _ in 0..nops {
                let c = rng.below(100);
                let op = if c < 35 {
                    let pages = (img.len() / PAGE) as u64;
                    let pg = rng.below(pages + 1);
                    let offs = [0u64, 1, 2, 3, 4, 5, 48, 511, 1016, 1017, 1018, 1019];
                    json!({"op":"rseek","off": pg * PAGE as u64 + *rng.pick(&offs)})
                } else if c < 85 {
                    let ns = [0u64, 1, 2, 3, 4, 7, 16, 48, 1019, 1020, 1021, 2040, 3000];
                    json!({"op":"rread","n": *rng.pick(&ns)})
                } else {
                    json!({"op":"ralign"})
                };
                trace_r(t, &mut r, &op);
            }
        }
        Err(_) => t.ev(json!({"ev":"r_open","img":jbytes(img),"res":{"err":1}})),
    }
}

/// Replay exported reader edges (MC_PageR): image id/len, alterations, op history, result, observer.
pub fn replay_r(edges: &str, out: &str) -> std::io::Result<()> {
    let f = BufReader::new(std::fs::File::open(edges)?);
    let mut o = std::fs::File::create(out)?;
    let (mut n, mut bad, mut panics) = (0u64, 0u64, 0u64);
    for line in f.lines() {
        let line = line?;
        if line.trim().is_empty() {
            continue;
        }
        let e: Value = serde_json::from_str(&line).expect("edge json");
        n += 1;
        let h = e["h"].as_array().expect("history").clone();
        let r = catch(|| {
            let img = build_image(&e);
            let npages = img.len() / PAGE;
            let mut rd = PagedReader::new(Dev::from_bytes(img.clone()), PAGE as u64).expect("open");
            let mut last = json!({"ok":0});
            for op in &h {
                last = apply_r(&mut rd, op);
            }
            let next = apply_r(&mut rd, &json!({"op":"rread","n":7}));
            // per-page probes, each from a fresh replay of the history (they expose the cache state)
            let mut probes = Vec::new();
            for k in 0..npages {
                let mut rd = PagedReader::new(Dev::from_bytes(img.clone()), PAGE as u64).expect("open");
                for op in &h {
                    apply_r(&mut rd, op);
                }
                apply_r(&mut rd, &json!({"op":"rseek","off": k * PAGE}));
                let r = apply_r(&mut rd, &json!({"op":"rread","n": PAYLOAD}));
                probes.push(match r.get("ok") {
                    Some(b) => {
                        let bytes: Vec<u8> = b.as_array().unwrap().iter().map(|x| x.as_u64().unwrap() as u8).collect();
                        json!({"ok": jbytes(&crc32c_bitwise(&bytes).to_be_bytes())})
                    }
                    None => r,
                });
            }
            (last, json!({"next": next, "pages": probes}))
        });
        match r {
            Ok((last, obs)) => {
                if last != e["res"] || obs != e["obs"] {
                    bad += 1;
                    writeln!(o, "{}", json!({"kind":"mismatch","edge":n,"case":e,"got_res":last,"got_obs":obs}))?;
                }
            }
            Err(msg) => {
                panics += 1;
                writeln!(o, "{}", json!({"kind":"panic","edge":n,"case":e,"msg":msg}))?;
            }
        }
    }
    writeln!(o, "{}", json!({"kind":"summary","edges":n,"mismatches":bad,"panics":panics}))?;
    Ok(())
}

/// image of an MC_PageR case: pattern data paginated by the harness, then altered
pub fn build_image(e: &Value) -> Vec<u8> {
    let id = e["img"].as_u64().unwrap() as usize;
    let len = e["len"].as_u64().unwrap() as usize;
    let mut img = paginate(&pat_data(id, len));
    for a in e["alter"].as_array().map(|v| v.clone()).unwrap_or_default() {
        let k = a[0].as_u64().unwrap() as usize;
        let site = a[1].as_u64().unwrap() as usize;
        let i = k * PAGE + site;
        img[i] = img[i].wrapping_add(1);
    }
    img
}

/// Record the trace of one MC_PageR case (to confirm a replay mismatch through TLC).
pub fn trace_case_r(case: &str, out: &str) -> std::io::Result<()> {
    let e: Value = serde_json::from_str(&std::fs::read_to_string(case)?).expect("case json");
    let mut t = TraceOut::create(out)?;
    t.ev(json!({"ev":"reset","run":0}));
    let img = build_image(&e);
    let npages = img.len() / PAGE;
    // the history followed by read(7), then once more followed by each per-page probe
    for probe in 0..=npages {
        if probe > 0 {
            t.ev(json!({"ev":"reset","run":probe}));
        }
        match PagedReader::new(Dev::from_bytes(img.clone()), PAGE as u64) {
            Ok(mut rd) => {
                t.ev(json!({"ev":"r_open","img":jbytes(&img),"res":{"ok":0}}));
                for op in e["h"].as_array().expect("h") {
                    trace_r(&mut t, &mut rd, op);
                }
                if probe == 0 {
                    trace_r(&mut t, &mut rd, &json!({"op":"rread","n":7}));
                } else {
                    trace_r(&mut t, &mut rd, &json!({"op":"rseek","off": (probe - 1) * PAGE}));
                    trace_r(&mut t, &mut rd, &json!({"op":"rread","n": PAYLOAD}));
                }
            }
            Err(_) => t.ev(json!({"ev":"r_open","img":jbytes(&img),"res":{"err":1}})),
        }
    }
    t.f.flush()
}
