//! The queue reader driven directly (crate-private, re-exported under cfg(e57_verif)): QueueReader::new,
//! advance and pop_point under a schedule, with the number of complete points available recorded after every step.
//! No expectation is computed here; Trace_E57 (QueueLayer) judges every step against the packets of the file.
use crate::conv::*;
use crate::page::TraceOut;
use crate::util::*;
use e57::verif::{PagedReader, QueueReader};
use e57::*;
use serde_json::json;
use std::io::Cursor;

/// number of packets of the compressed-vector section at physical offset `off` (own walk over the packet headers)
fn packet_count(img: &[u8], off: u64) -> usize {
    let l = payload(img);
    let lp = (off - 4 * (off / PAGE as u64)) as usize;
    if lp + 32 > l.len() {
        return 0;
    }
    let seclen = u64::from_le_bytes(l[lp + 8..lp + 16].try_into().unwrap()) as usize;
    let doff = u64::from_le_bytes(l[lp + 16..lp + 24].try_into().unwrap());
    let mut pos = (doff - 4 * (doff / PAGE as u64)) as usize;
    let end = (lp + seclen).min(l.len());
    let mut n = 0;
    while pos + 4 <= end {
        let plen = u16::from_le_bytes([l[pos + 2], l[pos + 3]]) as usize + 1;
        pos += plen;
        n += 1;
    }
    n
}

/// policy: "iter" (advance only when no point is available, like the iterators), "eager" (all packets first),
/// "random" (seeded mixture; also advances while points are still queued)
pub fn queue_op(img: &[u8], pc: &PointCloud, pci: usize, policy: &str, seed: u64, t: &mut TraceOut) {
    let npk = packet_count(img, pc.file_offset);
    let mut pr = match PagedReader::new(Cursor::new(img.to_vec()), 1024) {
        Ok(p) => p,
        Err(_) => return,
    };
    let r = catch(|| QueueReader::new(pc, &mut pr));
    let mut q = match r {
        Ok(Ok(q)) => {
            t.ev(json!({"ev":"q_new","pc":pci + 1,"policy":policy,"packets":npk,"res":ok(json!(0))}));
            q
        }
        Ok(Err(_)) => {
            t.ev(json!({"ev":"q_new","pc":pci + 1,"policy":policy,"packets":npk,"res":err()}));
            return;
        }
        Err(m) => {
            t.ev(json!({"ev":"q_new","pc":pci + 1,"policy":policy,"packets":npk,"res":{"panic":m}}));
            return;
        }
    };
    let mut rng = Rng::new(seed);
    let (mut adv, mut popped) = (0usize, 0u64);
    loop {
        let avail = q.available();
        let can_adv = adv < npk;
        let can_pop = avail >= 1 && popped < pc.records;
        let do_adv = match policy {
            "eager" => can_adv,
            "random" => can_adv && (!can_pop || rng.chance(1, 3)),
            _ => can_adv && avail < 1 && popped < pc.records,
        };
        if do_adv {
            let w0 = e57::verif::work_total();
            let r = catch(|| q.advance());
            let work = e57::verif::work_total() - w0;
            adv += 1;
            match r {
                Ok(Ok(())) => t.ev(json!({"ev":"q_advance","res":ok(json!(0)),"avail":q.available(),"work":work})),
                Ok(Err(_)) => {
                    t.ev(json!({"ev":"q_advance","res":err(),"avail":0}));
                    return;
                }
                Err(m) => {
                    t.ev(json!({"ev":"q_advance","res":{"panic":m},"avail":0}));
                    return;
                }
            }
        } else if can_pop {
            let mut point = RawValues::new();
            let r = catch(|| q.pop_point(&mut point));
            popped += 1;
            match r {
                Ok(Ok(())) => t.ev(json!({"ev":"q_pop","res":ok(point_tr(&point)),"avail":q.available()})),
                Ok(Err(_)) => {
                    t.ev(json!({"ev":"q_pop","res":err(),"avail":0}));
                    return;
                }
                Err(m) => {
                    t.ev(json!({"ev":"q_pop","res":{"panic":m},"avail":0}));
                    return;
                }
            }
        } else {
            break;
        }
    }
}
