//! Conversions between JSON (programs, traces) and the crate's public types.
//! Trace-side encodings (DESIGN Appendix A): 64-bit values as four 16-bit limbs, floats as bit
//! patterns, Option as {"some":v} | {"none":1}, results as {"ok":v} | {"err":1} | {"panic":msg}.
use crate::util::*;
use e57::*;
use serde_json::{json, Value};

pub fn ok(v: Value) -> Value {
    json!({ "ok": v })
}
pub fn err() -> Value {
    json!({"err":1})
}
pub fn res_unit<T>(r: std::result::Result<Result<T>, String>) -> Value {
    match r {
        Ok(Ok(_)) => ok(json!(0)),
        Ok(Err(_)) => err(),
        Err(m) => json!({ "panic": m }),
    }
}
pub fn is_ok(v: &Value) -> bool {
    v.get("ok").is_some()
}

pub fn opt<T>(o: &Option<T>, f: impl Fn(&T) -> Value) -> Value {
    match o {
        Some(v) => json!({"some": f(v)}),
        None => json!({"none":1}),
    }
}

pub fn f64_bits(v: f64) -> Value {
    limbs_u64(v.to_bits())
}
pub fn f32_bits(v: f32) -> Value {
    limbs_u64(v.to_bits() as u64)
}
/// canonical float projection for metadata comparisons: NaN payloads are not significant
pub fn f64_meta(v: f64) -> Value {
    if v.is_nan() {
        f64_bits(f64::NAN)
    } else {
        f64_bits(v)
    }
}

// ---------------- program JSON -> crate types ----------------

pub fn get_i64(v: &Value) -> i64 {
    if let Some(i) = v.as_i64() {
        i
    } else if let Some(u) = v.as_u64() {
        u as i64
    } else if let Some(s) = v.as_str() {
        s.parse::<i64>().expect("i64 string")
    } else {
        panic!("harness: expected integer, got {v}")
    }
}
pub fn get_u64(v: &Value) -> u64 {
    if let Some(u) = v.as_u64() {
        u
    } else if let Some(i) = v.as_i64() {
        i as u64
    } else if let Some(s) = v.as_str() {
        s.parse::<u64>().expect("u64 string")
    } else {
        panic!("harness: expected integer, got {v}")
    }
}
pub fn get_f64(v: &Value) -> f64 {
    // floats travel as bit patterns {"bits":u64} or as plain JSON numbers
    if let Some(b) = v.get("bits") {
        f64::from_bits(get_u64(b))
    } else {
        v.as_f64().expect("f64")
    }
}
pub fn get_f32(v: &Value) -> f32 {
    if let Some(b) = v.get("bits") {
        f32::from_bits(get_u64(b) as u32)
    } else {
        v.as_f64().expect("f32") as f32
    }
}

pub fn record_name(ns: &Value, name: &str) -> RecordName {
    if let Some(ns) = ns.as_str() {
        return RecordName::Unknown { namespace: ns.to_string(), name: name.to_string() };
    }
    match name {
        "cartesianX" => RecordName::CartesianX,
        "cartesianY" => RecordName::CartesianY,
        "cartesianZ" => RecordName::CartesianZ,
        "cartesianInvalidState" => RecordName::CartesianInvalidState,
        "sphericalRange" => RecordName::SphericalRange,
        "sphericalAzimuth" => RecordName::SphericalAzimuth,
        "sphericalElevation" => RecordName::SphericalElevation,
        "sphericalInvalidState" => RecordName::SphericalInvalidState,
        "intensity" => RecordName::Intensity,
        "isIntensityInvalid" => RecordName::IsIntensityInvalid,
        "colorRed" => RecordName::ColorRed,
        "colorGreen" => RecordName::ColorGreen,
        "colorBlue" => RecordName::ColorBlue,
        "isColorInvalid" => RecordName::IsColorInvalid,
        "rowIndex" => RecordName::RowIndex,
        "columnIndex" => RecordName::ColumnIndex,
        "returnCount" => RecordName::ReturnCount,
        "returnIndex" => RecordName::ReturnIndex,
        "timeStamp" => RecordName::TimeStamp,
        "isTimeStampInvalid" => RecordName::IsTimeStampInvalid,
        other => panic!("harness: unknown standard record name {other}"),
    }
}

pub fn record_from(v: &Value) -> Record {
    let name = record_name(&v["ns"], v["name"].as_str().expect("name"));
    let t = v["t"].as_str().expect("t");
    let optv = |k: &str| if v.get(k).map(|x| x.is_null()).unwrap_or(true) { None } else { Some(&v[k]) };
    let data_type = match t {
        "single" => RecordDataType::Single { min: optv("min").map(get_f32), max: optv("max").map(get_f32) },
        "double" => RecordDataType::Double { min: optv("min").map(get_f64), max: optv("max").map(get_f64) },
        "int" => RecordDataType::Integer { min: get_i64(&v["min"]), max: get_i64(&v["max"]) },
        "sint" => RecordDataType::ScaledInteger {
            min: get_i64(&v["min"]),
            max: get_i64(&v["max"]),
            scale: optv("scale").map(get_f64).unwrap_or(1.0),
            offset: optv("offset").map(get_f64).unwrap_or(0.0),
        },
        other => panic!("harness: unknown type {other}"),
    };
    Record { name, data_type }
}

pub const K_SINGLE: u64 = 0;
pub const K_DOUBLE: u64 = 1;
pub const K_SINT: u64 = 2;
pub const K_INT: u64 = 3;

/// program value: [kind, raw] where raw = i64 (ints) or the float's bit pattern
pub fn value_from(v: &Value) -> RecordValue {
    let k = v[0].as_u64().expect("kind");
    match k {
        K_SINGLE => RecordValue::Single(f32::from_bits(get_u64(&v[1]) as u32)),
        K_DOUBLE => RecordValue::Double(f64::from_bits(get_u64(&v[1]))),
        K_SINT => RecordValue::ScaledInteger(get_i64(&v[1])),
        _ => RecordValue::Integer(get_i64(&v[1])),
    }
}

// ---------------- crate types -> trace JSON ----------------

/// trace value: [kind, l0, l1, l2, l3]
pub fn value_tr(v: &RecordValue) -> Value {
    let (k, bits) = match v {
        RecordValue::Single(f) => (K_SINGLE, f.to_bits() as u64),
        RecordValue::Double(f) => (K_DOUBLE, f.to_bits()),
        RecordValue::ScaledInteger(i) => (K_SINT, *i as u64),
        RecordValue::Integer(i) => (K_INT, *i as u64),
    };
    json!([k, bits & 0xFFFF, (bits >> 16) & 0xFFFF, (bits >> 32) & 0xFFFF, (bits >> 48) & 0xFFFF])
}
pub fn point_tr(p: &[RecordValue]) -> Value {
    Value::Array(p.iter().map(value_tr).collect())
}

pub fn record_tr(r: &Record) -> Value {
    let (ns, name) = match &r.name {
        RecordName::Unknown { namespace, name } => (json!({"some": namespace}), name.clone()),
        other => (json!({"none":1}), std_name(other).to_string()),
    };
    let none = json!({"none":1});
    let (k, min, max, scale, offset) = match &r.data_type {
        RecordDataType::Single { min, max } => (K_SINGLE, opt(min, |x| f32_bits(*x)), opt(max, |x| f32_bits(*x)), none.clone(), none.clone()),
        RecordDataType::Double { min, max } => (K_DOUBLE, opt(min, |x| f64_bits(*x)), opt(max, |x| f64_bits(*x)), none.clone(), none.clone()),
        RecordDataType::ScaledInteger { min, max, scale, offset } => (
            K_SINT,
            json!({"some": limbs_i64(*min)}),
            json!({"some": limbs_i64(*max)}),
            json!({"some": f64_bits(*scale)}),
            json!({"some": f64_bits(*offset)}),
        ),
        RecordDataType::Integer { min, max } => (K_INT, json!({"some": limbs_i64(*min)}), json!({"some": limbs_i64(*max)}), none.clone(), none.clone()),
    };
    json!({"ns": ns, "name": name, "k": k, "min": min, "max": max, "scale": scale, "offset": offset})
}

pub fn std_name(n: &RecordName) -> &'static str {
    match n {
        RecordName::CartesianX => "cartesianX",
        RecordName::CartesianY => "cartesianY",
        RecordName::CartesianZ => "cartesianZ",
        RecordName::CartesianInvalidState => "cartesianInvalidState",
        RecordName::SphericalRange => "sphericalRange",
        RecordName::SphericalAzimuth => "sphericalAzimuth",
        RecordName::SphericalElevation => "sphericalElevation",
        RecordName::SphericalInvalidState => "sphericalInvalidState",
        RecordName::Intensity => "intensity",
        RecordName::IsIntensityInvalid => "isIntensityInvalid",
        RecordName::ColorRed => "colorRed",
        RecordName::ColorGreen => "colorGreen",
        RecordName::ColorBlue => "colorBlue",
        RecordName::IsColorInvalid => "isColorInvalid",
        RecordName::RowIndex => "rowIndex",
        RecordName::ColumnIndex => "columnIndex",
        RecordName::ReturnCount => "returnCount",
        RecordName::ReturnIndex => "returnIndex",
        RecordName::TimeStamp => "timeStamp",
        RecordName::IsTimeStampInvalid => "isTimeStampInvalid",
        RecordName::Unknown { .. } => "?",
    }
}

pub fn datetime_from(v: &Value) -> DateTime {
    DateTime { gps_time: get_f64(&v["t"]), atomic_reference: v["a"].as_bool().unwrap_or(false) }
}
pub fn datetime_tr(d: &DateTime) -> Value {
    json!({"t": f64_meta(d.gps_time), "a": if d.atomic_reference {1} else {0}})
}
pub fn transform_from(v: &Value) -> Transform {
    let q = &v["q"];
    let t = &v["t"];
    Transform {
        rotation: Quaternion { w: get_f64(&q[0]), x: get_f64(&q[1]), y: get_f64(&q[2]), z: get_f64(&q[3]) },
        translation: Translation { x: get_f64(&t[0]), y: get_f64(&t[1]), z: get_f64(&t[2]) },
    }
}
pub fn transform_tr(t: &Transform) -> Value {
    json!({"q":[f64_meta(t.rotation.w), f64_meta(t.rotation.x), f64_meta(t.rotation.y), f64_meta(t.rotation.z)],
           "t":[f64_meta(t.translation.x), f64_meta(t.translation.y), f64_meta(t.translation.z)]})
}
pub fn limit_from(v: &Value) -> Option<RecordValue> {
    if v.is_null() {
        None
    } else {
        Some(value_from(v))
    }
}
/// limit values are metadata: float NaN canonicalised
pub fn limit_tr(v: &Option<RecordValue>) -> Value {
    opt(v, |x| match x {
        RecordValue::Single(f) if f.is_nan() => value_tr(&RecordValue::Single(f32::NAN)),
        RecordValue::Double(f) if f.is_nan() => value_tr(&RecordValue::Double(f64::NAN)),
        other => value_tr(other),
    })
}
pub fn intensity_limits_from(v: &Value) -> IntensityLimits {
    IntensityLimits { intensity_min: limit_from(&v["min"]), intensity_max: limit_from(&v["max"]) }
}
pub fn intensity_limits_tr(l: &IntensityLimits) -> Value {
    json!({"min": limit_tr(&l.intensity_min), "max": limit_tr(&l.intensity_max)})
}
pub fn color_limits_from(v: &Value) -> ColorLimits {
    ColorLimits {
        red_min: limit_from(&v["rmin"]),
        red_max: limit_from(&v["rmax"]),
        green_min: limit_from(&v["gmin"]),
        green_max: limit_from(&v["gmax"]),
        blue_min: limit_from(&v["bmin"]),
        blue_max: limit_from(&v["bmax"]),
    }
}
pub fn color_limits_tr(l: &ColorLimits) -> Value {
    json!({"rmin": limit_tr(&l.red_min), "rmax": limit_tr(&l.red_max), "gmin": limit_tr(&l.green_min),
           "gmax": limit_tr(&l.green_max), "bmin": limit_tr(&l.blue_min), "bmax": limit_tr(&l.blue_max)})
}
pub fn ostr(o: &Option<String>) -> Value {
    opt(o, |s| json!(s))
}
pub fn of64(o: &Option<f64>) -> Value {
    opt(o, |x| f64_meta(*x))
}
pub fn oi64(o: &Option<i64>) -> Value {
    opt(o, |x| limbs_i64(*x))
}

pub fn blob_tr(b: &Blob) -> Value {
    json!({"off": limbs_u64(b.offset), "len": limbs_u64(b.length)})
}

pub fn pointcloud_tr(pc: &PointCloud) -> Value {
    json!({
        "guid": ostr(&pc.guid), "name": ostr(&pc.name), "description": ostr(&pc.description),
        "file_offset": limbs_u64(pc.file_offset), "records": limbs_u64(pc.records),
        "proto": Value::Array(pc.prototype.iter().map(record_tr).collect()),
        "original_guids": opt(&pc.original_guids, |g| json!(g)),
        "cartesian_bounds": opt(&pc.cartesian_bounds, |b| json!({"xmin":of64(&b.x_min),"xmax":of64(&b.x_max),"ymin":of64(&b.y_min),"ymax":of64(&b.y_max),"zmin":of64(&b.z_min),"zmax":of64(&b.z_max)})),
        "spherical_bounds": opt(&pc.spherical_bounds, |b| json!({"rmin":of64(&b.range_min),"rmax":of64(&b.range_max),"emin":of64(&b.elevation_min),"emax":of64(&b.elevation_max),"astart":of64(&b.azimuth_start),"aend":of64(&b.azimuth_end)})),
        "index_bounds": opt(&pc.index_bounds, |b| json!({"rowmin":oi64(&b.row_min),"rowmax":oi64(&b.row_max),"colmin":oi64(&b.column_min),"colmax":oi64(&b.column_max),"retmin":oi64(&b.return_min),"retmax":oi64(&b.return_max)})),
        "intensity_limits": opt(&pc.intensity_limits, intensity_limits_tr),
        "color_limits": opt(&pc.color_limits, color_limits_tr),
        "transform": opt(&pc.transform, transform_tr),
        "acq_start": opt(&pc.acquisition_start, datetime_tr), "acq_end": opt(&pc.acquisition_end, datetime_tr),
        "sensor_vendor": ostr(&pc.sensor_vendor), "sensor_model": ostr(&pc.sensor_model), "sensor_serial": ostr(&pc.sensor_serial),
        "sensor_hw": ostr(&pc.sensor_hw_version), "sensor_sw": ostr(&pc.sensor_sw_version), "sensor_fw": ostr(&pc.sensor_fw_version),
        "temperature": of64(&pc.temperature), "humidity": of64(&pc.humidity), "pressure": of64(&pc.atmospheric_pressure),
        "gcb": opt(&pc.get_cartesian_bounds(), |b| json!({"xmin":of64(&b.x_min),"xmax":of64(&b.x_max),"ymin":of64(&b.y_min),"ymax":of64(&b.y_max),"zmin":of64(&b.z_min),"zmax":of64(&b.z_max)})),
        "has": {"cart": pc.has_cartesian() as u8, "sph": pc.has_spherical() as u8, "color": pc.has_color() as u8, "intensity": pc.has_intensity() as u8,
                "rowcol": pc.has_row_column() as u8, "ret": pc.has_return() as u8, "ts": pc.has_timestamp() as u8},
    })
}

fn fmt_tr(f: &ImageFormat) -> Value {
    match f {
        ImageFormat::Png => json!("png"),
        ImageFormat::Jpeg => json!("jpeg"),
    }
}
fn imgblob_tr(b: &ImageBlob) -> Value {
    json!({"fmt": fmt_tr(&b.format), "blob": blob_tr(&b.data)})
}

pub fn image_tr(im: &Image) -> Value {
    let proj = match &im.projection {
        None => json!({"none":1}),
        Some(Projection::Pinhole(p)) => json!({"some": {"kind":"pinhole","blob":imgblob_tr(&p.blob),"mask":opt(&p.mask, blob_tr),
            "props":{"width":p.properties.width,"height":p.properties.height,"focal":f64_meta(p.properties.focal_length),
                     "pw":f64_meta(p.properties.pixel_width),"ph":f64_meta(p.properties.pixel_height),
                     "px":f64_meta(p.properties.principal_x),"py":f64_meta(p.properties.principal_y)}}}),
        Some(Projection::Spherical(p)) => json!({"some": {"kind":"spherical","blob":imgblob_tr(&p.blob),"mask":opt(&p.mask, blob_tr),
            "props":{"width":p.properties.width,"height":p.properties.height,
                     "pw":f64_meta(p.properties.pixel_width),"ph":f64_meta(p.properties.pixel_height)}}}),
        Some(Projection::Cylindrical(p)) => json!({"some": {"kind":"cylindrical","blob":imgblob_tr(&p.blob),"mask":opt(&p.mask, blob_tr),
            "props":{"width":p.properties.width,"height":p.properties.height,"radius":f64_meta(p.properties.radius),
                     "py":f64_meta(p.properties.principal_y),
                     "pw":f64_meta(p.properties.pixel_width),"ph":f64_meta(p.properties.pixel_height)}}}),
    };
    json!({
        "guid": ostr(&im.guid), "name": ostr(&im.name), "description": ostr(&im.description),
        "pc_guid": ostr(&im.pointcloud_guid), "transform": opt(&im.transform, transform_tr),
        "acquisition": opt(&im.acquisition, datetime_tr),
        "sensor_vendor": ostr(&im.sensor_vendor), "sensor_model": ostr(&im.sensor_model), "sensor_serial": ostr(&im.sensor_serial),
        "visual": opt(&im.visual_reference, |v| json!({"blob":imgblob_tr(&v.blob),"mask":opt(&v.mask, blob_tr),
                     "props":{"width":v.properties.width,"height":v.properties.height}})),
        "projection": proj,
    })
}
