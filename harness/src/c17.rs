//! C17: read operations on one open reader vs. a freshly opened reader, for every sequence of
//! operations up to a depth, over pristine and damaged variants of real files.
use crate::c07::exec_op;
use crate::dev::Dev;
use crate::page::TraceOut;
use crate::prog::run_writer;
use crate::util::*;
use e57::*;
use serde_json::{json, Value};
use std::collections::HashMap;

fn outcome(r: std::result::Result<std::result::Result<String, ()>, String>) -> String {
    match r {
        Ok(Ok(s)) => format!("ok:{s}"),
        Ok(Err(())) => "err".to_string(),
        Err(m) => format!("panic:{m}"),
    }
}

pub fn run(progs: &str, depth: usize, out: &str) -> std::io::Result<()> {
    let mut t = TraceOut::create(out)?;
    let mut null = TraceOut::create("/dev/null")?;
    for (pi, line) in std::fs::read_to_string(progs)?.lines().enumerate() {
        if line.trim().is_empty() {
            continue;
        }
        let prog: Value = serde_json::from_str(line).expect("program");
        // a program may cap the depth of its sequences (files with many pages have many damaged variants)
        let depth = prog.get("max_depth").and_then(|d| d.as_u64()).map(|d| (d as usize).min(depth)).unwrap_or(depth);
        let dev = Dev::new();
        let w = run_writer(&prog, &dev, &mut null);
        if !(w.all_ok && w.finalize_called) {
            continue;
        }
        let img = dev.snapshot();
        let npages = img.len() / PAGE;
        let pcs0 = match E57Reader::new(Dev::from_bytes(img.clone())) {
            Ok(r) => r.pointclouds(),
            Err(_) => continue,
        };
        // variants: pristine, each page unsealed by one bit flip, damaged (re-sealed) sections
        let mut variants: Vec<(String, Vec<u8>)> = vec![("pristine".into(), img.clone())];
        for k in 0..npages {
            let mut b = img.clone();
            b[k * PAGE + 500] ^= 0x10;
            variants.push((format!("page{k}"), b));
        }
        for (i, pc) in pcs0.iter().enumerate() {
            // first packet of the section gets an unknown type; pages re-sealed so the parser sees it
            let mut l = payload(&img);
            let lp = (pc.file_offset - 4 * (pc.file_offset / PAGE as u64)) as usize;
            if lp + 40 < l.len() {
                l[lp + 32] = 7;
                variants.push((format!("pc{i}_packet"), paginate(&l)));
            }
        }
        for (j, (off, _)) in w.blobs.iter().enumerate() {
            let mut l = payload(&img);
            let lp = (off - 4 * (off / PAGE as u64)) as usize;
            l[lp] = 1;
            variants.push((format!("blob{j}_section"), paginate(&l)));
        }
        t.ev(json!({"ev":"reset","run":pi,"name":prog["name"],"variants":variants.len()}));
        for (vname, vimg) in &variants {
            let mut rd = match catch(|| E57Reader::new(Dev::from_bytes(vimg.clone()))) {
                Ok(Ok(r)) => r,
                _ => continue,
            };
            let pcs = rd.pointclouds();
            let mut ops: Vec<String> = vec!["xml".into(), "report".into()];
            for (i, pc) in pcs.iter().enumerate() {
                ops.push(format!("raw{i}"));
                ops.push(format!("part{i}_1"));
                ops.push(format!("part{i}_{}", (pc.records / 2).max(2)));
                ops.push(format!("simple{i}"));
                ops.push(format!("spart{i}_1"));
            }
            for j in 0..w.blobs.len() {
                ops.push(format!("blob{j}"));
            }
            // result of each operation on a freshly opened reader
            let mut fresh: HashMap<String, String> = HashMap::new();
            for op in &ops {
                let mut f = E57Reader::new(Dev::from_bytes(vimg.clone())).expect("reopen");
                let fp = f.pointclouds();
                fresh.insert(op.clone(), outcome(catch(|| exec_op(&mut f, op, &fp, &w.blobs))));
            }
            // every sequence of operations up to `depth`, each on ONE reader opened once per sequence
            let n = ops.len();
            let mut idx = vec![0usize; depth];
            for d in 1..=depth {
                let total = n.pow(d as u32);
                for code in 0..total {
                    let mut c = code;
                    for slot in idx.iter_mut().take(d) {
                        *slot = c % n;
                        c /= n;
                    }
                    if d > 1 || code > 0 {
                        rd = match catch(|| E57Reader::new(Dev::from_bytes(vimg.clone()))) {
                            Ok(Ok(r)) => r,
                            _ => break,
                        };
                    }
                    let mut classes = Vec::new();
                    let mut kinds = Vec::new();
                    for &oi in idx.iter().take(d) {
                        let op = &ops[oi];
                        let got = outcome(catch(|| exec_op(&mut rd, op, &pcs, &w.blobs)));
                        let fr = &fresh[op];
                        classes.push(if got.starts_with("panic") { "panic" } else if &got == fr { "same" } else { "diff" });
                        kinds.push(if fr == "err" { "err" } else { "ok" });
                    }
                    let seq: Vec<&String> = idx.iter().take(d).map(|&oi| &ops[oi]).collect();
                    t.ev(json!({"ev":"c17","variant":vname,"seq":seq,"classes":classes,"fresh":kinds}));
                }
            }
        }
    }
    use std::io::Write;
    t.f.flush()
}

/// Transient device faults: on one reader over a device that transfers short (every page needs several device reads),
/// operation A runs, then operation B with ONE device operation failing (the device recovers at once), then A again.
/// The last A must give what a fresh reader gives (C17: "... and whether earlier operations failed").
pub fn run_transient(progs: &str, out: &str) -> std::io::Result<()> {
    let mut t = TraceOut::create(out)?;
    let mut null = TraceOut::create("/dev/null")?;
    for (pi, line) in std::fs::read_to_string(progs)?.lines().enumerate() {
        if line.trim().is_empty() {
            continue;
        }
        let prog: Value = serde_json::from_str(line).expect("program");
        let dev = Dev::new();
        let w = run_writer(&prog, &dev, &mut null);
        if !(w.all_ok && w.finalize_called) {
            continue;
        }
        let img = dev.snapshot();
        let mk = || {
            let d = Dev::from_bytes(img.clone());
            d.set_chunks(vec![300, 724, 1, 500]);
            d
        };
        let pcs = match E57Reader::new(mk()) {
            Ok(r) => r.pointclouds(),
            Err(_) => continue,
        };
        let mut ops: Vec<String> = vec!["xml".into(), "report".into()];
        for i in 0..pcs.len() {
            ops.push(format!("raw{i}"));
            ops.push(format!("spart{i}_1"));
        }
        for j in 0..w.blobs.len() {
            ops.push(format!("blob{j}"));
        }
        t.ev(json!({"ev":"reset","run":pi,"name":prog["name"],"variants":1}));
        let mut fresh: HashMap<String, String> = HashMap::new();
        let mut cost: HashMap<String, usize> = HashMap::new();
        for op in &ops {
            let d = mk();
            let mut f = E57Reader::new(d.clone()).expect("reopen");
            let before = d.opcount();
            fresh.insert(op.clone(), outcome(catch(|| exec_op(&mut f, op, &pcs, &w.blobs))));
            cost.insert(op.clone(), d.opcount() - before);
        }
        for a in &ops {
            for b in &ops {
                let nb = cost[b];
                // every device operation of B for short ones, a spread for long ones
                let step = (nb / 40).max(1);
                let mut j = 0;
                while j < nb {
                    let d = mk();
                    let mut rd = match catch(|| E57Reader::new(d.clone())) {
                        Ok(Ok(r)) => r,
                        _ => break,
                    };
                    let r1 = outcome(catch(|| exec_op(&mut rd, a, &pcs, &w.blobs)));
                    d.set_fault(Some(d.opcount() + j));
                    let r2 = outcome(catch(|| exec_op(&mut rd, b, &pcs, &w.blobs)));
                    d.set_fault(None);
                    let r3 = outcome(catch(|| exec_op(&mut rd, a, &pcs, &w.blobs)));
                    let cls = |got: &String, op: &String, faulted: bool| {
                        if got.starts_with("panic") { "panic" } else if got == &fresh[op] || (faulted && got == "err") { "same" } else { "diff" }
                    };
                    let classes = vec![cls(&r1, a, false), cls(&r2, b, true), cls(&r3, a, false)];
                    let kinds: Vec<&str> = [a, b, a].iter().map(|o| if fresh[*o] == "err" { "err" } else { "ok" }).collect();
                    t.ev(json!({"ev":"c17","variant":"transient_fault","seq":[a, format!("{b}!fault@{j}"), a],"classes":classes,"fresh":kinds}));
                    j += step;
                }
            }
        }
    }
    use std::io::Write;
    t.f.flush()
}
