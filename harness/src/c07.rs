//! C07: read operations on altered files. Records, per alteration, the outcome class of every read
//! operation relative to the unaltered file (err / same / diff / panic) and the ground truth
//! (which pages were altered). The verdict is TLC's (Trace_C07.tla).
use crate::conv::*;
use crate::dev::Dev;
use crate::page::TraceOut;
use crate::prog::run_writer;
use crate::util::*;
use e57::*;
use serde_json::{json, Value};

fn run_ops(img: &[u8], order: usize, nblobs: &[(u64, u64)]) -> Vec<(String, String)> {
    let mut out: Vec<(String, String)> = Vec::new();
    let dev = Dev::from_bytes(img.to_vec());
    let r = catch(|| E57Reader::new(dev));
    let mut rd = match r {
        Ok(Ok(r)) => {
            out.push(("open".into(), "ok".into()));
            r
        }
        Ok(Err(_)) => {
            out.push(("open".into(), "err".into()));
            return out;
        }
        Err(m) => {
            out.push(("open".into(), format!("panic:{m}")));
            return out;
        }
    };
    let pcs = rd.pointclouds();
    let mut ops: Vec<String> = vec!["xml".into(), "report".into()];
    for i in 0..pcs.len() {
        ops.push(format!("raw{i}"));
        ops.push(format!("part{i}"));
    }
    for j in 0..nblobs.len() {
        ops.push(format!("blob{j}"));
    }
    // a few fixed orders: forward, reverse, rotated, and forward repeated (reads after failures)
    let n = ops.len();
    let seq: Vec<String> = match order % 4 {
        0 => ops.clone(),
        1 => ops.iter().rev().cloned().collect(),
        2 => (0..n).map(|i| ops[(i + n / 2) % n].clone()).collect(),
        _ => ops.iter().chain(ops.iter()).cloned().collect(),
    };
    for op in seq {
        let res = catch(|| exec_op(&mut rd, &op, &pcs, nblobs));
        let o = match res {
            Ok(Ok(s)) => s,
            Ok(Err(())) => "err".to_string(),
            Err(m) => format!("panic:{m}"),
        };
        out.push((op, o));
    }
    out
}

/// one read operation on a live reader; Ok(canonical text of the result) or Err(())
pub fn exec_op(rd: &mut E57Reader<Dev>, op: &str, pcs: &[PointCloud], nblobs: &[(u64, u64)]) -> std::result::Result<String, ()> {
    if op == "xml" {
        Ok(rd.xml().to_string())
    } else if op == "report" {
        Ok(json!({"guid": rd.guid(), "pcs": rd.pointclouds().iter().map(pointcloud_tr).collect::<Vec<_>>(),
                  "images": rd.images().iter().map(image_tr).collect::<Vec<_>>()}).to_string())
    } else if let Some(i) = op.strip_prefix("raw") {
        let i: usize = i.parse().unwrap();
        let mut s = String::new();
        let it = rd.pointcloud_raw(&pcs[i]).map_err(|_| ())?;
        for p in it {
            let p = p.map_err(|_| ())?;
            s.push_str(&point_tr(&p).to_string());
        }
        Ok(s)
    } else if let Some(i) = op.strip_prefix("part") {
        // iterator only partly consumed, then dropped
        let (i, k) = i.split_once('_').unwrap_or((i, "1"));
        let i: usize = i.parse().unwrap();
        let k: usize = k.parse().unwrap();
        let mut it = rd.pointcloud_raw(&pcs[i]).map_err(|_| ())?;
        let mut s = String::new();
        for _ in 0..k {
            match it.next() {
                None => { s.push_str("none"); break; }
                Some(Ok(p)) => s.push_str(&point_tr(&p).to_string()),
                Some(Err(_)) => return Err(()),
            }
        }
        Ok(s)
    } else if let Some(i) = op.strip_prefix("simple") {
        let i: usize = i.parse().unwrap();
        let mut s = String::new();
        let it = rd.pointcloud_simple(&pcs[i]).map_err(|_| ())?;
        for p in it {
            let p = p.map_err(|_| ())?;
            s.push_str(&format!("{:?}", p));
        }
        Ok(s)
    } else if let Some(i) = op.strip_prefix("spart") {
        let (i, k) = i.split_once('_').unwrap_or((i, "1"));
        let i: usize = i.parse().unwrap();
        let k: usize = k.parse().unwrap();
        let mut it = rd.pointcloud_simple(&pcs[i]).map_err(|_| ())?;
        let mut s = String::new();
        for _ in 0..k {
            match it.next() {
                None => { s.push_str("none"); break; }
                Some(Ok(p)) => s.push_str(&format!("{:?}", p)),
                Some(Err(_)) => return Err(()),
            }
        }
        Ok(s)
    } else if let Some(j) = op.strip_prefix("blob") {
        let j: usize = j.parse().unwrap();
        let mut buf = Vec::new();
        rd.blob(&Blob::new(nblobs[j].0, nblobs[j].1), &mut buf).map_err(|_| ())?;
        Ok(format!("{:?}", buf))
    } else {
        Ok(String::new())
    }
}

fn statics(img: &[u8]) -> (String, String) {
    let v = match catch(|| E57Reader::validate_crc(Dev::from_bytes(img.to_vec()))) {
        Ok(Ok(_)) => "ok".to_string(),
        Ok(Err(_)) => "err".to_string(),
        Err(m) => format!("panic:{m}"),
    };
    let x = match catch(|| E57Reader::raw_xml(Dev::from_bytes(img.to_vec()))) {
        Ok(Ok(b)) => format!("{:?}", b),
        Ok(Err(_)) => "err".to_string(),
        Err(m) => format!("panic:{m}"),
    };
    (v, x)
}

fn classify(got: &str, pristine: Option<&String>) -> String {
    if got == "err" {
        "err".into()
    } else if got.starts_with("panic:") {
        "panic".into()
    } else if Some(&got.to_string()) == pristine {
        "same".into()
    } else {
        "diff".into()
    }
}

pub fn run(progs: &str, mode: &str, seed: u64, samples: usize, out: &str) -> std::io::Result<()> {
    let mut t = TraceOut::create(out)?;
    let mut rng = Rng::new(seed);
    let mut null = TraceOut::create("/dev/null")?;
    for (pi, line) in std::fs::read_to_string(progs)?.lines().enumerate() {
        if line.trim().is_empty() {
            continue;
        }
        let prog: Value = serde_json::from_str(line).expect("program");
        let dev = Dev::new();
        let w = run_writer(&prog, &dev, &mut null);
        if !(w.all_ok && w.finalize_called) {
            continue;
        }
        let img = dev.snapshot();
        let npages = img.len() / PAGE;
        t.ev(json!({"ev":"reset","run":pi,"name":prog["name"],"pages":npages}));
        // pristine results for every order
        let mut pristine: Vec<std::collections::HashMap<String, String>> = Vec::new();
        for order in 0..4 {
            let r = run_ops(&img, order, &w.blobs);
            pristine.push(r.into_iter().collect());
        }
        let (pv, px) = statics(&img);
        if mode == "pagesweep" {
            // one alteration per page of a large file; only the whole-file operations are run
            t.ev(json!({"ev":"c07","alt":{"kind":"none"},"pages":[],"order":0,"ops":[],
                        "vcrc": pv.clone(), "rawxml": classify(&px, Some(&px))}));
            for k in 0..npages {
                let mut b = img.clone();
                let bit = k * PAGE * 8 + rng.below((PAGE * 8) as u64) as usize;
                b[bit / 8] ^= 1 << (bit % 8);
                let (v, x) = statics(&b);
                t.ev(json!({"ev":"c07","alt":{"kind":"bit1","bits":[bit]},"pages":[k],"order":0,"ops":[],
                            "vcrc": if v.starts_with("panic") {"panic".to_string()} else {v}, "rawxml": classify(&x, Some(&px))}));
            }
            continue;
        }
        let mut case = |alt: Value, bytes: &[u8], caseno: usize, t: &mut TraceOut| {
            let pages: Vec<usize> = (0..npages).filter(|k| bytes[k * PAGE..(k + 1) * PAGE] != img[k * PAGE..(k + 1) * PAGE]).collect();
            // ground truth must be "detectably altered": skip alterations that happen to re-seal a page
            if pages.iter().any(|k| page_valid(bytes, *k)) {
                return;
            }
            let order = caseno % 4;
            let got = run_ops(bytes, order, &w.blobs);
            let ops: Vec<Value> = got.iter().map(|(op, g)| {
                if op == "open" { json!([op, if g == "ok" { "ok".to_string() } else { classify(g, None) }]) } else { json!([op, classify(g, pristine[order].get(op))]) }
            }).collect();
            let (v, x) = statics(bytes);
            t.ev(json!({"ev":"c07","alt":alt,"pages":pages,"order":order,"ops":ops,
                        "vcrc": if v.starts_with("panic") {"panic".to_string()} else {v},
                        "rawxml": classify(&x, Some(&px))}));
        };
        case(json!({"kind":"none"}), &img, 3, &mut t);
        let _ = &pv;
        if mode == "exhaustive" {
            for bit in 0..img.len() * 8 {
                let mut b = img.clone();
                b[bit / 8] ^= 1 << (bit % 8);
                case(json!({"kind":"bit1","bits":[bit]}), &b, bit, &mut t);
            }
        }
        for s in 0..samples {
            let mut b = img.clone();
            let k = rng.below(npages as u64) as usize;
            let kind = s % 4;
            let alt = match kind {
                0 | 1 => {
                    // 2 or 3 bit flips inside one page
                    let n = 2 + kind;
                    let mut bits = Vec::new();
                    while bits.len() < n {
                        let bit = k * PAGE * 8 + rng.below((PAGE * 8) as u64) as usize;
                        if !bits.contains(&bit) {
                            bits.push(bit);
                        }
                    }
                    for bit in &bits {
                        b[bit / 8] ^= 1 << (bit % 8);
                    }
                    json!({"kind": format!("bit{n}"), "bits": bits})
                }
                2 => {
                    // one burst of up to 32 bits inside a page: first and last bit flipped, random between
                    let len = 2 + rng.below(31) as usize;
                    let start = k * PAGE * 8 + rng.below((PAGE * 8 - len) as u64) as usize;
                    let mut bits = vec![start, start + len - 1];
                    for i in 1..len - 1 {
                        if rng.chance(1, 2) {
                            bits.push(start + i);
                        }
                    }
                    for bit in &bits {
                        b[bit / 8] ^= 1 << (bit % 8);
                    }
                    json!({"kind":"burst","start":start,"len":len})
                }
                _ => {
                    // random overwrite of a run of bytes, possibly across pages
                    let start = rng.below(img.len() as u64) as usize;
                    let len = 1 + rng.below(300) as usize;
                    for i in start..(start + len).min(img.len()) {
                        b[i] = rng.next() as u8;
                    }
                    json!({"kind":"overwrite","start":start,"len":len})
                }
            };
            if b == img {
                continue;
            }
            case(alt, &b, s, &mut t);
        }
        // directed: stored checksums that a sloppy verifier might accept -- the right CRC in the wrong byte order (with the
        // payload intact or altered), the complemented CRC, the CRC of the payload plus zero padding
        for k in 0..npages {
            let pay = &img[k * PAGE..k * PAGE + PAYLOAD];
            let mut altered = pay.to_vec();
            altered[(k * 37) % PAYLOAD] ^= 0x5A;
            let mut padded = altered.clone();
            padded.extend_from_slice(&[0, 0]);
            let variants: Vec<(&str, Vec<u8>, [u8; 4])> = vec![
                ("crc-byte-swapped", pay.to_vec(), crc32c_bitwise(pay).to_le_bytes()),
                ("altered+crc-little-endian", altered.clone(), crc32c_bitwise(&altered).to_le_bytes()),
                ("altered+crc-complemented", altered.clone(), (!crc32c_bitwise(&altered)).to_be_bytes()),
                ("altered+crc-of-zero-padded", altered.clone(), crc32c_bitwise(&padded).to_be_bytes()),
            ];
            for (name, payload, sum) in variants {
                let mut b = img.clone();
                b[k * PAGE..k * PAGE + PAYLOAD].copy_from_slice(&payload);
                b[k * PAGE + PAYLOAD..(k + 1) * PAGE].copy_from_slice(&sum);
                if b == img {
                    continue;
                }
                case(json!({"kind": name, "page": k}), &b, k, &mut t);
            }
        }
        // other page sizes (validate_crc and raw_xml take the page size from the header): the same logical file re-paged
        // with p - 4 payload bytes per page, every page sealed with CRC-32C; intact -> both succeed, one altered byte -> both report it
        let logical = payload(&img);
        let (xoff, xlen) = (u64::from_le_bytes(img[24..32].try_into().unwrap()), u64::from_le_bytes(img[32..40].try_into().unwrap()) as usize);
        let xlo = (xoff - 4 * (xoff / PAGE as u64)) as usize;
        for p in [1021usize, 1022, 1023, 1025, 1027, 513, 514, 260, 65, 2048] {
            let pl = p - 4;
            let mut l = logical.clone();
            while l.len() % pl != 0 {
                l.push(0);
            }
            let np = l.len() / pl;
            l[16..24].copy_from_slice(&((np * p) as u64).to_le_bytes());
            l[24..32].copy_from_slice(&((xlo + 4 * (xlo / pl)) as u64).to_le_bytes());
            l[40..48].copy_from_slice(&(p as u64).to_le_bytes());
            let mut b = Vec::with_capacity(np * p);
            for c in l.chunks(pl) {
                b.extend_from_slice(c);
                b.extend_from_slice(&crc32c_bitwise(c).to_be_bytes());
            }
            let _ = xlen;
            for altered in [false, true] {
                let mut bb = b.clone();
                if altered {
                    let at = (xlo + 4 * (xlo / pl)) + 5;      // inside the XML section
                    bb[at] ^= 0x01;
                }
                let (v, x) = statics(&bb);
                t.ev(json!({"ev":"c07","alt":{"kind": format!("pagesize-{p}"), "altered": altered},"pages": if altered { vec![0] } else { vec![] },"order":0,"ops":[],
                            "vcrc": if v.starts_with("panic") {"panic".to_string()} else {v},
                            "rawxml": classify(&x, Some(&px))}));
            }
        }
    }
    use std::io::Write;
    t.f.flush()
}
