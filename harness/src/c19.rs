//! C19: copy a file through the public API (same prototypes and raw values, metadata, images, blobs),
//! copy the copy, write twice. Records masked reports and equality of bulk data.
use crate::conv::*;
use crate::dev::Dev;
use crate::page::TraceOut;
use crate::prog::run_writer;
use crate::util::*;
use e57::*;
use serde_json::{json, Value};
use std::io::Cursor;

/// report with file positions masked (they legitimately differ between source and copy)
fn masked_report(rd: &E57Reader<Dev>, mask_lib: bool) -> Value {
    let mut pcs: Vec<Value> = rd.pointclouds().iter().map(pointcloud_tr).collect();
    for p in pcs.iter_mut() {
        p["file_offset"] = json!(0);
        if mask_lib {
            // bounds are derived by the writer from the points (the API offers no way to set or omit
            // them); they are compared between the copy and the copy of the copy, and checked by C14
            p["cartesian_bounds"] = json!(0);
            p["spherical_bounds"] = json!(0);
            p["index_bounds"] = json!(0);
            // get_cartesian_bounds() is a function of the two stored bounds structures
            p["gcb"] = json!(0);
        }
        // limits structures that lack a member (not allowed by the standard, a foreign producer may still write them) are
        // deliberately not written by the writer ("all members are required"): they count as absent on both sides
        for key in ["intensity_limits", "color_limits"] {
            let partial = p[key].get("some").map(|l| l.as_object().map(|o| o.values().any(|m| m.get("none").is_some())).unwrap_or(false)).unwrap_or(false);
            if partial {
                p[key] = json!({"none": 1});
            }
        }
    }
    let mut images: Vec<Value> = rd.images().iter().map(image_tr).collect();
    fn mask_blobs(v: &mut Value) {
        match v {
            Value::Object(m) => {
                if m.contains_key("off") && m.contains_key("len") {
                    m.insert("off".into(), json!(0));
                }
                for (_, x) in m.iter_mut() {
                    mask_blobs(x);
                }
            }
            Value::Array(a) => a.iter_mut().for_each(mask_blobs),
            _ => {}
        }
    }
    images.iter_mut().for_each(mask_blobs);
    json!({"guid": rd.guid(), "format": rd.format_name(),
           "lib": if mask_lib { json!(0) } else { json!(rd.library_version()) },
           "coord": opt(&rd.coordinate_metadata().map(|s| s.to_string()), |s| json!(s)),
           "creation": opt(&rd.creation(), datetime_tr),
           "ext": rd.extensions().iter().map(|e| json!([e.namespace, e.url])).collect::<Vec<_>>(),
           "pcs": pcs, "images": images})
}

struct Content {
    report: Value,
    points: Vec<Vec<Vec<RecordValue>>>,
    blobs: Vec<Vec<u8>>,
}

fn read_all(img: &[u8], mask_lib: bool) -> std::result::Result<Content, String> {
    let mut rd = E57Reader::new(Dev::from_bytes(img.to_vec())).map_err(|e| format!("open: {e}"))?;
    let report = masked_report(&rd, mask_lib);
    let mut points = Vec::new();
    for pc in rd.pointclouds() {
        let mut v = Vec::new();
        for p in rd.pointcloud_raw(&pc).map_err(|e| format!("raw: {e}"))? {
            v.push(p.map_err(|e| format!("raw next: {e}"))?);
        }
        points.push(v);
    }
    let mut blobs = Vec::new();
    for im in rd.images() {
        let mut get = |b: &Blob, rd: &mut E57Reader<Dev>| -> std::result::Result<(), String> {
            let mut buf = Vec::new();
            rd.blob(b, &mut buf).map_err(|e| format!("blob: {e}"))?;
            blobs.push(buf);
            Ok(())
        };
        if let Some(v) = &im.visual_reference {
            get(&v.blob.data, &mut rd)?;
            if let Some(m) = &v.mask {
                get(m, &mut rd)?;
            }
        }
        match &im.projection {
            Some(Projection::Pinhole(p)) => { get(&p.blob.data, &mut rd)?; if let Some(m) = &p.mask { get(m, &mut rd)?; } }
            Some(Projection::Spherical(p)) => { get(&p.blob.data, &mut rd)?; if let Some(m) = &p.mask { get(m, &mut rd)?; } }
            Some(Projection::Cylindrical(p)) => { get(&p.blob.data, &mut rd)?; if let Some(m) = &p.mask { get(m, &mut rd)?; } }
            None => {}
        }
    }
    Ok(Content { report, points, blobs })
}

/// copy through the public API; returns the bytes of the copy or the failing call
fn copy(img: &[u8]) -> std::result::Result<Vec<u8>, Value> {
    let mut rd = E57Reader::new(Dev::from_bytes(img.to_vec())).map_err(|_| json!({"call":"open"}))?;
    let dev = Dev::new();
    let r = catch(|| -> std::result::Result<(), Value> {
        let mut w = E57Writer::new(dev.clone(), rd.guid()).map_err(|_| json!({"call":"w_new"}))?;
        w.set_coordinate_metadata(rd.coordinate_metadata().map(|s| s.to_string()));
        w.set_creation(rd.creation());
        for e in rd.extensions() {
            w.register_extension(e.clone()).map_err(|_| json!({"call":"register_extension","ns":e.namespace}))?;
        }
        for pc in rd.pointclouds() {
            let mut pw = w.add_pointcloud(pc.guid.as_deref().unwrap_or(""), pc.prototype.clone())
                .map_err(|_| json!({"call":"add_pointcloud","proto": pc.prototype.iter().map(record_tr).collect::<Vec<_>>()}))?;
            pw.set_name(pc.name.clone());
            pw.set_description(pc.description.clone());
            pw.set_original_guids(pc.original_guids.clone());
            pw.set_transform(pc.transform.clone());
            pw.set_acquisition_start(pc.acquisition_start.clone());
            pw.set_acquisition_end(pc.acquisition_end.clone());
            pw.set_sensor_vendor(pc.sensor_vendor.clone());
            pw.set_sensor_model(pc.sensor_model.clone());
            pw.set_sensor_serial(pc.sensor_serial.clone());
            pw.set_sensor_hw_version(pc.sensor_hw_version.clone());
            pw.set_sensor_sw_version(pc.sensor_sw_version.clone());
            pw.set_sensor_fw_version(pc.sensor_fw_version.clone());
            pw.set_temperature(pc.temperature);
            pw.set_humidity(pc.humidity);
            pw.set_atmospheric_pressure(pc.atmospheric_pressure);
            pw.set_intensity_limits(pc.intensity_limits.clone());
            pw.set_color_limits(pc.color_limits.clone());
            let it = rd.pointcloud_raw(&pc).map_err(|_| json!({"call":"pointcloud_raw"}))?;
            for p in it {
                let p = p.map_err(|_| json!({"call":"raw_next"}))?;
                pw.add_point(p.clone()).map_err(|_| json!({"call":"add_point","vals":point_tr(&p)}))?;
            }
            pw.finalize().map_err(|_| json!({"call":"pc_finalize"}))?;
        }
        for im in rd.images() {
            let mut iw = w.add_image(im.guid.as_deref().unwrap_or("")).map_err(|_| json!({"call":"add_image"}))?;
            if let Some(s) = &im.name { iw.set_name(s); }
            if let Some(s) = &im.description { iw.set_description(s); }
            if let Some(s) = &im.pointcloud_guid { iw.set_pointcloud_guid(s); }
            if let Some(s) = &im.sensor_vendor { iw.set_sensor_vendor(s); }
            if let Some(s) = &im.sensor_model { iw.set_sensor_model(s); }
            if let Some(s) = &im.sensor_serial { iw.set_sensor_serial(s); }
            if let Some(t) = &im.transform { iw.set_transform(t.clone()); }
            if let Some(t) = &im.acquisition { iw.set_acquisition(t.clone()); }
            let mut fetch = |b: &Blob, rd: &mut E57Reader<Dev>| -> std::result::Result<Vec<u8>, Value> {
                let mut buf = Vec::new();
                rd.blob(b, &mut buf).map_err(|_| json!({"call":"blob"}))?;
                Ok(buf)
            };
            if let Some(v) = &im.visual_reference {
                let d = fetch(&v.blob.data, &mut rd)?;
                let m = match &v.mask { Some(m) => Some(fetch(m, &mut rd)?), None => None };
                let mut mc = m.as_ref().map(Cursor::new);
                iw.add_visual_reference(v.blob.format.clone(), &mut Cursor::new(&d), v.properties.clone(), mc.as_mut().map(|c| c as &mut dyn std::io::Read))
                    .map_err(|_| json!({"call":"add_visual_reference"}))?;
            }
            match &im.projection {
                Some(Projection::Pinhole(p)) => {
                    let d = fetch(&p.blob.data, &mut rd)?;
                    let m = match &p.mask { Some(m) => Some(fetch(m, &mut rd)?), None => None };
                    let mut mc = m.as_ref().map(Cursor::new);
                    iw.add_pinhole(p.blob.format.clone(), &mut Cursor::new(&d), p.properties.clone(), mc.as_mut().map(|c| c as &mut dyn std::io::Read)).map_err(|_| json!({"call":"add_pinhole"}))?;
                }
                Some(Projection::Spherical(p)) => {
                    let d = fetch(&p.blob.data, &mut rd)?;
                    let m = match &p.mask { Some(m) => Some(fetch(m, &mut rd)?), None => None };
                    let mut mc = m.as_ref().map(Cursor::new);
                    iw.add_spherical(p.blob.format.clone(), &mut Cursor::new(&d), p.properties.clone(), mc.as_mut().map(|c| c as &mut dyn std::io::Read)).map_err(|_| json!({"call":"add_spherical"}))?;
                }
                Some(Projection::Cylindrical(p)) => {
                    let d = fetch(&p.blob.data, &mut rd)?;
                    let m = match &p.mask { Some(m) => Some(fetch(m, &mut rd)?), None => None };
                    let mut mc = m.as_ref().map(Cursor::new);
                    iw.add_cylindrical(p.blob.format.clone(), &mut Cursor::new(&d), p.properties.clone(), mc.as_mut().map(|c| c as &mut dyn std::io::Read)).map_err(|_| json!({"call":"add_cylindrical"}))?;
                }
                None => {}
            }
            iw.finalize().map_err(|_| json!({"call":"im_finalize"}))?;
        }
        w.finalize().map_err(|_| json!({"call":"w_finalize"}))?;
        Ok(())
    });
    match r {
        Ok(Ok(())) => Ok(dev.snapshot()),
        Ok(Err(v)) => Err(v),
        Err(m) => Err(json!({"call":"panic","msg":m})),
    }
}

fn same_points(a: &[Vec<Vec<RecordValue>>], b: &[Vec<Vec<RecordValue>>]) -> bool {
    a.len() == b.len() && a.iter().zip(b.iter()).all(|(x, y)| x.len() == y.len() && x.iter().zip(y.iter()).all(|(p, q)| point_tr(p) == point_tr(q)))
}

/// sources: NDJSON lines {"name":..,"file":path} or writer programs
pub fn run(sources: &str, out: &str) -> std::io::Result<()> {
    let mut t = TraceOut::create(out)?;
    let mut null = TraceOut::create("/dev/null")?;
    for (i, line) in std::fs::read_to_string(sources)?.lines().enumerate() {
        if line.trim().is_empty() {
            continue;
        }
        let src: Value = serde_json::from_str(line).expect("source");
        let img: Vec<u8> = if let Some(f) = src.get("file").and_then(|f| f.as_str()) {
            std::fs::read(f)?
        } else {
            let dev = Dev::new();
            let w = run_writer(&src, &dev, &mut null);
            if !(w.all_ok && w.finalize_called) {
                continue;
            }
            dev.snapshot()
        };
        t.ev(json!({"ev":"reset","run":i,"name":src["name"]}));
        let c0 = match read_all(&img, true) {
            Ok(c) => c,
            Err(why) => {
                t.ev(json!({"ev":"c19_unreadable","why":why}));
                continue;
            }
        };
        let protos: Vec<Value> = c0.report["pcs"].as_array().unwrap().iter().map(|p| p["proto"].clone()).collect();
        let ext: Vec<Value> = c0.report["ext"].as_array().unwrap().iter().map(|e| json!({"ns": e[0], "url": e[1]})).collect();
        match copy(&img) {
            Err(call) => t.ev(json!({"ev":"c19_copy","protos":protos,"exts":ext,"res":{"err":1,"failed":call}})),
            Ok(b1) => {
                let c1 = read_all(&b1, true);
                let b1b = copy(&img);
                let b2 = copy(&b1);
                let (rep_same, pts_same, blobs_same, readable) = match &c1 {
                    Ok(c1) => (c1.report == c0.report, same_points(&c0.points, &c1.points), c0.blobs == c1.blobs, true),
                    Err(_) => (false, false, false, false),
                };
                let c2 = b2.as_ref().ok().and_then(|b| read_all(b, false).ok());
                let c1f = read_all(&b1, false).ok();
                let second_same = match (&c2, &c1f) {
                    (Some(c2), Some(c1)) => c2.report == c1.report && same_points(&c1.points, &c2.points) && c1.blobs == c2.blobs,
                    _ => false,
                };
                t.ev(json!({"ev":"c19_copy","protos":protos,"exts":ext,"res":{"ok":0},
                            "copy_readable": readable as u8, "report_same": rep_same as u8, "points_same": pts_same as u8, "blobs_same": blobs_same as u8,
                            "source_report": c0.report, "copy_report": c1.as_ref().map(|c| c.report.clone()).unwrap_or(json!(0)),
                            "second_copy_same": second_same as u8,
                            "second_copy_bytes_same": (b2.as_ref().ok() == Some(&b1)) as u8,
                            "deterministic": (b1b.as_ref().ok() == Some(&b1)) as u8}));
            }
        }
    }
    use std::io::Write;
    t.f.flush()
}
