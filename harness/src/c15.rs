//! C15: crash images. The write sequence of a writer program is recorded; every prefix of it and
//! every requested torn cut inside the cut write is materialised and handed to the real reader.
use crate::c07::exec_op;
use crate::dev::{Dev, DevOp};
use crate::page::TraceOut;
use crate::prog::run_writer;
use crate::util::*;
use e57::*;
use serde_json::{json, Value};

fn listing(rd: &E57Reader<Dev>) -> String {
    use crate::conv::*;
    let h = rd.header();
    json!({"header": [h.major as u64, h.minor as u64, h.phys_length, h.phys_xml_offset, h.xml_length, h.page_size],
           "format": rd.format_name(), "lib": rd.library_version(), "coord": rd.coordinate_metadata(),
           "creation": rd.creation().map(|c| datetime_tr(&c)),
           "guid": rd.guid(), "pcs": rd.pointclouds().iter().map(pointcloud_tr).collect::<Vec<_>>(),
           "images": rd.images().iter().map(image_tr).collect::<Vec<_>>(),
           "ext": rd.extensions().iter().map(|e| json!([e.namespace, e.url])).collect::<Vec<_>>()}).to_string()
}

fn ops_for(rd: &E57Reader<Dev>, nblobs: usize) -> Vec<String> {
    let mut ops: Vec<String> = vec!["xml".into(), "imgblobs".into()];
    for i in 0..rd.pointclouds().len() {
        ops.push(format!("raw{i}"));
        ops.push(format!("simple{i}"));
    }
    for j in 0..nblobs {
        ops.push(format!("blob{j}"));
    }
    ops
}

/// the content of every blob the images refer to (data and masks), in listing order
fn image_blobs(rd: &mut E57Reader<Dev>) -> std::result::Result<String, ()> {
    let mut blobs: Vec<Blob> = Vec::new();
    for im in rd.images() {
        if let Some(v) = &im.visual_reference {
            blobs.push(v.blob.data.clone());
            if let Some(m) = &v.mask { blobs.push(m.clone()); }
        }
        match &im.projection {
            Some(Projection::Pinhole(p)) => { blobs.push(p.blob.data.clone()); if let Some(m) = &p.mask { blobs.push(m.clone()); } }
            Some(Projection::Spherical(p)) => { blobs.push(p.blob.data.clone()); if let Some(m) = &p.mask { blobs.push(m.clone()); } }
            Some(Projection::Cylindrical(p)) => { blobs.push(p.blob.data.clone()); if let Some(m) = &p.mask { blobs.push(m.clone()); } }
            None => {}
        }
    }
    let mut s = String::new();
    for b in blobs {
        let mut data = Vec::new();
        rd.blob(&b, &mut data).map_err(|_| ())?;
        s.push_str(&format!("{}:{:?};", data.len(), data));
    }
    Ok(s)
}

fn run_op(rd: &mut E57Reader<Dev>, op: &str, pcs: &[PointCloud], blobs: &[(u64, u64)]) -> std::result::Result<String, ()> {
    if op == "imgblobs" { image_blobs(rd) } else { exec_op(rd, op, pcs, blobs) }
}

fn outcome(r: std::result::Result<std::result::Result<String, ()>, String>) -> String {
    match r {
        Ok(Ok(s)) => format!("ok:{s}"),
        Ok(Err(())) => "err".to_string(),
        Err(m) => format!("panic:{m}"),
    }
}

pub fn run(progs: &str, allcuts: bool, out: &str) -> std::io::Result<()> {
    let mut t = TraceOut::create(out)?;
    for (pi, line) in std::fs::read_to_string(progs)?.lines().enumerate() {
        if line.trim().is_empty() {
            continue;
        }
        let prog: Value = serde_json::from_str(line).expect("program");
        let steps = prog["steps"].as_array().unwrap();
        let fin_call = steps.iter().position(|s| s["op"] == "finalize");
        let dev = Dev::recording();
        let mut null = TraceOut::create("/dev/null")?;
        let w = run_writer(&prog, &dev, &mut null);
        if !w.all_ok {
            continue;
        }
        let complete = dev.snapshot();
        let (writes, calls): (Vec<(u64, Vec<u8>)>, Vec<usize>) = {
            let s = dev.0.borrow();
            let ws: Vec<(u64, Vec<u8>)> = s.ops.iter().filter_map(|o| if let DevOp::Write { pos, data } = o { Some((*pos, data.clone())) } else { None }).collect();
            (ws, s.write_calls.clone())
        };
        // reference results: the file as it stands after every top-level finalize of the program (the last one is the
        // completed file). A prefix of the program run on a fresh device gives the same bytes (writing is deterministic).
        let fin_calls: Vec<usize> = steps.iter().enumerate().filter(|(_, s)| s["op"] == "finalize").map(|(i, _)| i).collect();
        struct Ref { call: usize, listing: String, ops: Vec<(String, String)>, nblobs: usize }
        let mut refs: Vec<Ref> = Vec::new();
        // the XML of every finalized version, as the static helper returns it
        let mut ref_xmls: Vec<Vec<u8>> = Vec::new();
        let mut complete_opens = false;
        for (k, fc) in fin_calls.iter().enumerate() {
            let image = if k + 1 == fin_calls.len() && *fc + 1 == steps.len() {
                complete.clone()
            } else {
                let mut pre = prog.clone();
                pre["steps"] = Value::Array(steps[..=*fc].to_vec());
                let d = Dev::new();
                run_writer(&pre, &d, &mut null);
                d.snapshot()
            };
            if let Ok(Ok(x)) = catch(|| E57Reader::raw_xml(Dev::from_bytes(image.clone()))) {
                ref_xmls.push(x);
            }
            if let Ok(mut rd) = E57Reader::new(Dev::from_bytes(image)) {
                let listing = listing(&rd);
                let pcs = rd.pointclouds();
                let mut ops = Vec::new();
                // the direct blobs this version holds: those lying in front of its XML section
                let nblobs = w.blobs.iter().filter(|(o, l)| o + 16 + l <= rd.header().phys_xml_offset).count();
                for op in ops_for(&rd, nblobs) {
                    let r = outcome(catch(|| run_op(&mut rd, &op, &pcs, &w.blobs)));
                    ops.push((op, r));
                }
                refs.push(Ref { call: *fc, listing, ops, nblobs });
                if k + 1 == fin_calls.len() {
                    complete_opens = true;
                }
            }
        }
        t.ev(json!({"ev":"reset","run":pi,"name":prog["name"],"writes":writes.len(),
                    "finalize_in_program": if fin_call.is_some() {1} else {0},
                    "complete_opens": if complete_opens {1} else {0}}));
        // the write sequence in the abstraction of CrashSpec.tla: (page, kind, finalize started)
        // kind: hdr0 placeholder header, hdrF final header, hdrP header with final XML fields but another length,
        // data = the page's final content, part = an earlier version of a page that is rewritten later
        if fin_calls.len() <= 1 {
            let fin_len = complete.len() as u64;
            let (xoff, xlen) = if complete.len() >= 48 {
                (u64::from_le_bytes(complete[24..32].try_into().unwrap()), u64::from_le_bytes(complete[32..40].try_into().unwrap()))
            } else { (0, 0) };
            let lo = xoff - 4 * (xoff / PAGE as u64);
            let (xml_first, xml_last) = if xlen > 0 { (lo / PAYLOAD as u64, (lo + xlen - 1) / PAYLOAD as u64) } else { (1, 0) };
            let mut ws: Vec<Value> = Vec::new();
            let mut whole_pages = true;
            for (j, (pos, data)) in writes.iter().enumerate() {
                if pos % PAGE as u64 != 0 || data.len() != PAGE {
                    whole_pages = false;
                    continue;
                }
                let page = (pos / PAGE as u64) as usize;
                let kind = if page == 0 {
                    let xl = u64::from_le_bytes(data[32..40].try_into().unwrap());
                    let xo = u64::from_le_bytes(data[24..32].try_into().unwrap());
                    let pl = u64::from_le_bytes(data[16..24].try_into().unwrap());
                    if xl == 0 { "hdr0" } else if xl == xlen && xo == xoff && pl == fin_len && data[..] == complete[..PAGE] { "hdrF" } else { "hdrP" }
                } else if (page + 1) * PAGE <= complete.len() && data[..] == complete[page * PAGE..(page + 1) * PAGE] { "data" } else { "part" };
                let fin = fin_call.map(|f| calls[j] >= f).unwrap_or(false);
                ws.push(json!([page, kind, if fin {1} else {0}]));
            }
            t.ev(json!({"ev":"c15_writes","whole_pages": if whole_pages {1} else {0},"pages": complete.len() / PAGE,
                        "xml_first": xml_first, "xml_last": xml_last, "writes": ws}));
        }
        let mut judge = |img: &[u8], wj: usize, cut: usize, n: usize, fin_started: bool, call: usize, t: &mut TraceOut| {
            let r = catch(|| E57Reader::new(Dev::from_bytes(img.to_vec())));
            let (accepted, lsame, ops) = match r {
                Ok(Ok(mut rd)) => {
                    let l = catch(|| listing(&rd)).unwrap_or_else(|m| format!("panic:{m}"));
                    // the finalized version this image claims to be: one whose finalize call had at least started
                    let matched = refs.iter().rev().find(|r| r.call <= call && r.listing == l);
                    let ref_listing = matched.map(|r| r.listing.clone()).unwrap_or_default();
                    let ref_ops: &[(String, String)] = matched.map(|r| &r.ops[..]).or(refs.last().map(|r| &r.ops[..])).unwrap_or(&[]);
                    let pcs = rd.pointclouds();
                    let mut classes: Vec<Value> = Vec::new();
                    let nb = matched.map(|r| r.nblobs).unwrap_or(w.blobs.len());
                    for op in ops_for(&rd, nb) {
                        let got = outcome(catch(|| run_op(&mut rd, &op, &pcs, &w.blobs)));
                        let want = ref_ops.iter().find(|(o, _)| o == &op).map(|(_, r)| r.clone());
                        let c = if got.starts_with("panic") { "panic" } else if got == "err" { "err" } else if Some(got) == want { "same" } else { "diff" };
                        classes.push(json!([op, c]));
                    }
                    (1, if matched.is_some() && l == ref_listing { 1 } else { 0 }, classes)
                }
                Ok(Err(_)) => (0, 0, vec![]),
                Err(m) => (2, 0, vec![json!(["open", format!("panic:{m}")])]),
            };
            // the static helper that needs no open reader: an error, or the XML of a finalized version
            let rawxml = match catch(|| E57Reader::raw_xml(Dev::from_bytes(img.to_vec()))) {
                Ok(Ok(x)) => if ref_xmls.iter().any(|r| r == &x) { "same" } else { "diff" },
                Ok(Err(_)) => "err",
                Err(_) => "panic",
            };
            t.ev(json!({"ev":"c15_img","w":wj,"cut":cut,"n":n,"size":img.len(),"fin_started": if fin_started {1} else {0},
                        "accepted":accepted,"listing_same":lsame,"ops":ops,"rawxml":rawxml}));
        };
        let mut cur: Vec<u8> = Vec::new();
        for (j, (pos, data)) in writes.iter().enumerate() {
            let fin_started = fin_call.map(|f| calls[j] >= f).unwrap_or(false);
            let n = data.len();
            let coarse = prog["cuts"] == "coarse";
            let cuts: Vec<usize> = if (allcuts || (fin_started && *pos == 0)) && !coarse {
                (0..n).collect()
            } else {
                let mut c: Vec<usize> = vec![0, 1, 8, 16, 17, 24, 25, 32, 33, 40, 41, 47, 48, 49, 512, 1019, 1020, 1021, 1023];
                c.retain(|x| *x < n);
                c
            };
            for c in cuts {
                let mut img = cur.clone();
                let end = *pos as usize + c;
                if img.len() < end {
                    img.resize(end, 0);
                }
                img[*pos as usize..end].copy_from_slice(&data[..c]);
                judge(&img, j, c, n, fin_started, calls[j], &mut t);
            }
            let end = *pos as usize + n;
            if cur.len() < end {
                cur.resize(end, 0);
            }
            cur[*pos as usize..end].copy_from_slice(data);
        }
        // everything written: this is what remains after the writer is gone
        let fin_done = fin_call.is_some();
        judge(&cur, writes.len(), 0, 0, fin_done, usize::MAX, &mut t);
        t.ev(json!({"ev":"c15_end","final_equals_device": if cur == complete {1} else {0}}));
    }
    use std::io::Write;
    t.f.flush()
}
