//! e57h — conformance harness binding the TLA+ specification in /verif/spec to cry-inc/e57.
//! It drives the real code and records what happened; verdicts are TLC's.
mod alloc;
mod bits;
mod c07;
mod c15;
mod c16;
mod c17;
mod c19;
mod conv;
mod dev;
mod dump;
mod page;
mod prog;
mod queue;
mod simple;
mod untrusted;
mod util;

#[global_allocator]
static GLOBAL: alloc::Counting = alloc::Counting;

fn arg(args: &[String], name: &str) -> Option<String> {
    args.iter().position(|a| a == name).and_then(|i| args.get(i + 1).cloned())
}
fn argn(args: &[String], name: &str, default: u64) -> u64 {
    arg(args, name).map(|s| s.parse().expect("number")).unwrap_or(default)
}

fn main() {
    let args: Vec<String> = std::env::args().collect();
    if args.len() < 2 {
        eprintln!("usage: e57h <command> [options]");
        std::process::exit(2);
    }
    // panics of the code under test are data, reported by the callers of util::catch
    std::panic::set_hook(Box::new(|_| {}));
    // a runaway allocation in the code under test must abort this process, not invite the OOM killer
    alloc::set_cap(6usize << 30);
    let out = arg(&args, "--out").unwrap_or_else(|| "out.ndjson".to_string());
    let seed = argn(&args, "--seed", 1);
    let r = match args[1].as_str() {
        "page-replay-w" => page::replay_w(&arg(&args, "--edges").expect("--edges"), &out),
        "c07-run" => c07::run(&arg(&args, "--progs").expect("--progs"), &arg(&args, "--mode").unwrap_or_else(|| "sample".into()), seed, argn(&args, "--samples", 100) as usize, &out),
        "c15-run" => c15::run(&arg(&args, "--progs").expect("--progs"), arg(&args, "--allcuts").is_some(), &out),
        "c16-run" => c16::run(&arg(&args, "--progs").expect("--progs"), seed, argn(&args, "--scheds", 6) as usize, &out),
        "c19-run" => c19::run(&arg(&args, "--sources").expect("--sources"), &out),
        "c17-transient" => c17::run_transient(&arg(&args, "--progs").expect("--progs"), &out),
        "c17-run" => c17::run(&arg(&args, "--progs").expect("--progs"), argn(&args, "--depth", 2) as usize, &out),
        "lib-dump" => dump::run(&arg(&args, "--file").expect("--file"), &out),
        "e57-read" => prog::read_cases(&arg(&args, "--cases").expect("--cases"), argn(&args, "--from", 0) as usize, argn(&args, "--queue-policies", 2) as usize, &out),
        "untrusted-run" => untrusted::run(&arg(&args, "--bases").expect("--bases"), &arg(&args, "--muts").expect("--muts"), argn(&args, "--from", 0) as usize, &out),
        "dump-bases" => untrusted::dump_bases(&arg(&args, "--bases").expect("--bases"), &out),
        "bits-replay" => bits::replay(&arg(&args, "--edges").expect("--edges"), &out),
        "e57-run" => prog::run_programs(&arg(&args, "--progs").expect("--progs"), arg(&args, "--from").map(|x| x.parse::<usize>().expect("--from")), &out),
        "simple-run" => simple::run(&arg(&args, "--progs").expect("--progs"), &out),
        "page-replay-r" => page::replay_r(&arg(&args, "--edges").expect("--edges"), &out),
        "page-trace-case-r" => page::trace_case_r(&arg(&args, "--case").expect("--case"), &out),
        "page-trace-history" => page::trace_history(&arg(&args, "--history").expect("--history"), &out),
        "page-fuzz" => page::fuzz(seed, argn(&args, "--runs", 10) as usize, argn(&args, "--ops", 100) as usize, &out),
        other => {
            eprintln!("unknown command {other}");
            std::process::exit(2);
        }
    };
    if let Err(e) = r {
        eprintln!("harness error: {e}");
        std::process::exit(2);
    }
}
