//! Counting global allocator: live bytes, peak since the last reset, and a cap on live bytes above
//! which allocation fails (the process then aborts and the supervisor records "alloc_cap").
use std::alloc::{GlobalAlloc, Layout, System};
use std::sync::atomic::{AtomicUsize, Ordering};

pub struct Counting;
static LIVE: AtomicUsize = AtomicUsize::new(0);
static PEAK: AtomicUsize = AtomicUsize::new(0);
static CAP: AtomicUsize = AtomicUsize::new(usize::MAX);

unsafe impl GlobalAlloc for Counting {
    unsafe fn alloc(&self, l: Layout) -> *mut u8 {
        let live = LIVE.fetch_add(l.size(), Ordering::Relaxed) + l.size();
        if live > CAP.load(Ordering::Relaxed) {
            LIVE.fetch_sub(l.size(), Ordering::Relaxed);
            return std::ptr::null_mut();
        }
        PEAK.fetch_max(live, Ordering::Relaxed);
        System.alloc(l)
    }
    unsafe fn dealloc(&self, p: *mut u8, l: Layout) {
        LIVE.fetch_sub(l.size(), Ordering::Relaxed);
        System.dealloc(p, l)
    }
    unsafe fn realloc(&self, p: *mut u8, l: Layout, new: usize) -> *mut u8 {
        if new > l.size() {
            let live = LIVE.fetch_add(new - l.size(), Ordering::Relaxed) + (new - l.size());
            if live > CAP.load(Ordering::Relaxed) {
                LIVE.fetch_sub(new - l.size(), Ordering::Relaxed);
                return std::ptr::null_mut();
            }
            PEAK.fetch_max(live, Ordering::Relaxed);
        } else {
            LIVE.fetch_sub(l.size() - new, Ordering::Relaxed);
        }
        System.realloc(p, l, new)
    }
}

pub fn set_cap(bytes: usize) {
    CAP.store(bytes, Ordering::Relaxed);
}
/// start a measurement: peak := live; returns live
pub fn mark() -> usize {
    let l = LIVE.load(Ordering::Relaxed);
    PEAK.store(l, Ordering::Relaxed);
    l
}
/// bytes allocated above the mark at the peak
pub fn peak_above(mark: usize) -> usize {
    PEAK.load(Ordering::Relaxed).saturating_sub(mark)
}
