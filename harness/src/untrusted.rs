//! C08 / C09: every reading entry point on mutated files. One event per (mutated file), written and
//! flushed immediately so that a supervisor can attribute an abort or a timeout to the case in progress.
use crate::alloc;
use crate::dev::Dev;
use crate::page::TraceOut;
use crate::prog::run_writer;
use crate::util::*;
use e57::*;
use serde_json::{json, Value};
use std::io::Write;

fn u64_at(b: &[u8], o: usize) -> u64 {
    u64::from_le_bytes(b[o..o + 8].try_into().unwrap())
}

/// apply one mutation to a base image
pub fn mutate(base: &[u8], m: &Value) -> Vec<u8> {
    let mut img = base.to_vec();
    let mut reseal_needed = false;
    for e in m["edits"].as_array().cloned().unwrap_or_default() {
        match e["k"].as_str().unwrap_or("") {
            "phys" => {
                let off = e["off"].as_u64().unwrap() as usize;
                for (i, b) in e["bytes"].as_array().unwrap().iter().enumerate() {
                    if off + i < img.len() {
                        img[off + i] = b.as_u64().unwrap() as u8;
                    }
                }
            }
            "log" => {
                let mut l = payload(&img);
                let off = e["off"].as_u64().unwrap() as usize;
                for (i, b) in e["bytes"].as_array().unwrap().iter().enumerate() {
                    if off + i < l.len() {
                        l[off + i] = b.as_u64().unwrap() as u8;
                    }
                }
                let pages = img.len() / PAGE;
                let mut n = paginate(&l);
                n.resize(pages * PAGE, 0);
                img = n;
                reseal_needed = true;
            }
            "xml" => {
                // replace the nth occurrence of a string in the XML, rebuild header lengths
                if img.len() < 48 {
                    continue;
                }
                let xoff = u64_at(&img, 24) as usize;
                let xlen = u64_at(&img, 32) as usize;
                let l = payload(&img);
                let lo = xoff - 4 * (xoff / PAGE);
                if lo + xlen > l.len() {
                    continue;
                }
                let xml = String::from_utf8_lossy(&l[lo..lo + xlen]).to_string();
                let from = e["from"].as_str().unwrap();
                let to = e["to"].as_str().unwrap();
                let nth = e["nth"].as_u64().unwrap_or(0) as usize;
                let mut idx = None;
                let mut start = 0;
                for k in 0..=nth {
                    match xml[start..].find(from) {
                        Some(p) => {
                            idx = Some(start + p);
                            start = start + p + from.len().max(1);
                            let _ = k;
                        }
                        None => {
                            idx = None;
                            break;
                        }
                    }
                }
                if let Some(p) = idx {
                    let mut nx = String::new();
                    nx.push_str(&xml[..p]);
                    nx.push_str(to);
                    nx.push_str(&xml[p + from.len()..]);
                    let mut nl = l[..lo].to_vec();
                    nl.extend_from_slice(nx.as_bytes());
                    let pages = (nl.len() + PAYLOAD - 1) / PAYLOAD;
                    nl[16..24].copy_from_slice(&((pages * PAGE) as u64).to_le_bytes());
                    nl[32..40].copy_from_slice(&(nx.len() as u64).to_le_bytes());
                    img = paginate(&nl);
                }
                reseal_needed = true;
            }
            "trunc" => {
                let n = e["len"].as_u64().unwrap() as usize;
                img.truncate(n.min(img.len()));
            }
            "append" => {
                for b in e["bytes"].as_array().unwrap() {
                    img.push(b.as_u64().unwrap() as u8);
                }
            }
            _ => {}
        }
    }
    if m["reseal"].as_bool().unwrap_or(false) || reseal_needed {
        let whole = img.len() / PAGE * PAGE;
        reseal(&mut img[..whole]);
    }
    img
}

struct Meter {
    dev: Dev,
    max_read: u64,
    max_alloc: usize,
    max_work: u64,
    calls: u64,
}
impl Meter {
    fn call<T>(&mut self, f: impl FnOnce() -> T) -> std::result::Result<T, String> {
        let r0 = self.dev.bytes_read();
        let m = alloc::mark();
        let w0 = e57::verif::work_total();
        let r = catch(f);
        self.max_work = self.max_work.max(e57::verif::work_total() - w0);
        self.max_alloc = self.max_alloc.max(alloc::peak_above(m));
        self.max_read = self.max_read.max(self.dev.bytes_read() - r0);
        self.calls += 1;
        r
    }
}

fn outcome<T>(r: &std::result::Result<Result<T>, String>) -> &'static str {
    match r {
        Ok(Ok(_)) => "ok",
        Ok(Err(_)) => "err",
        Err(_) => "panic",
    }
}

/// every reading entry point on one image; returns the event
fn exercise(img: &[u8], name: &Value) -> Value {
    let size = img.len();
    let mut ops: Vec<Value> = Vec::new();
    let mut note = |op: &str, out: &str, m: &Meter, extra: Value| {
        let mut v = json!({"op": op, "out": out, "devread": m.max_read, "alloc": m.max_alloc, "work": m.max_work.min(2_000_000_000), "calls": m.calls});
        if let Some(o) = extra.as_object() {
            for (k, x) in o {
                v[k] = x.clone();
            }
        }
        ops.push(v);
    };
    // static entry points
    {
        let dev = Dev::from_bytes(img.to_vec());
        let mut m = Meter { dev: dev.clone(), max_read: 0, max_alloc: 0, max_work: 0, calls: 0 };
        let r = m.call(|| E57Reader::validate_crc(dev.clone()));
        note("validate_crc", outcome(&r), &m, json!({}));
    }
    {
        let dev = Dev::from_bytes(img.to_vec());
        let mut m = Meter { dev: dev.clone(), max_read: 0, max_alloc: 0, max_work: 0, calls: 0 };
        let r = m.call(|| E57Reader::raw_xml(dev.clone()));
        note("raw_xml", outcome(&r), &m, json!({}));
    }
    let dev = Dev::from_bytes(img.to_vec());
    let mut m = Meter { dev: dev.clone(), max_read: 0, max_alloc: 0, max_work: 0, calls: 0 };
    let r = m.call(|| E57Reader::new(dev.clone()));
    note("open", outcome(&r), &m, json!({}));
    let mut nproto = 0usize;
    if let Ok(Ok(mut rd)) = r {
        let mut m = Meter { dev: dev.clone(), max_read: 0, max_alloc: 0, max_work: 0, calls: 0 };
        let lst = m.call(|| (rd.pointclouds(), rd.images(), rd.extensions(), rd.xml().len(), rd.header()));
        note("listing", if lst.is_ok() { "ok" } else { "panic" }, &m, json!({}));
        if let Ok((pcs, images, _, _, _)) = lst {
            for (i, pc) in pcs.iter().enumerate() {
                nproto = nproto.max(pc.prototype.len());
                // raw iterator, driven to its first Err or None
                let mut m = Meter { dev: dev.clone(), max_read: 0, max_alloc: 0, max_work: 0, calls: 0 };
                let it = m.call(|| rd.pointcloud_raw(pc));
                let mut out = outcome(&it).to_string();
                let mut yielded = 0u64;
                if let Ok(Ok(mut it)) = it {
                    loop {
                        let n = m.call(|| it.next());
                        match n {
                            Ok(None) => { out = "ok".into(); break; }
                            Ok(Some(Ok(_))) => yielded += 1,
                            Ok(Some(Err(_))) => { out = "err".into(); break; }
                            Err(_) => { out = "panic".into(); break; }
                        }
                        if yielded > pc.records.saturating_add(3) || yielded > 3_000_000 {
                            out = "overrun".into();
                            break;
                        }
                    }
                }
                note("raw", &out, &m, json!({"pc": i, "yielded": limbs_u64(yielded), "records": limbs_u64(pc.records), "proto_len": pc.prototype.len()}));
                // simple iterator under a few option vectors
                for (oi, o) in [[true, true, false, true, true, true], [false, false, true, false, false, false], [true, true, true, true, false, true]].iter().enumerate() {
                    let mut m = Meter { dev: dev.clone(), max_read: 0, max_alloc: 0, max_work: 0, calls: 0 };
                    let it = m.call(|| rd.pointcloud_simple(pc));
                    let mut out = outcome(&it).to_string();
                    let mut yielded = 0u64;
                    if let Ok(Ok(mut it)) = it {
                        it.apply_pose(o[0]);
                        it.spherical_to_cartesian(o[1]);
                        it.cartesian_to_spherical(o[2]);
                        it.intensity_to_color(o[3]);
                        it.normalize_intensity(o[4]);
                        it.normalize_color(o[5]);
                        loop {
                            let n = m.call(|| it.next());
                            match n {
                                Ok(None) => { out = "ok".into(); break; }
                                Ok(Some(Ok(_))) => yielded += 1,
                                Ok(Some(Err(_))) => { out = "err".into(); break; }
                                Err(_) => { out = "panic".into(); break; }
                            }
                            if yielded > pc.records.saturating_add(3) || yielded > 3_000_000 {
                                out = "overrun".into();
                                break;
                            }
                        }
                    }
                    note(&format!("simple{oi}"), &out, &m, json!({"pc": i, "yielded": limbs_u64(yielded), "records": limbs_u64(pc.records), "proto_len": pc.prototype.len()}));
                }
            }
            // every blob the listing names
            let mut blobs: Vec<Blob> = Vec::new();
            for im in &images {
                if let Some(v) = &im.visual_reference {
                    blobs.push(v.blob.data.clone());
                    if let Some(b) = &v.mask { blobs.push(b.clone()); }
                }
                match &im.projection {
                    Some(Projection::Pinhole(p)) => { blobs.push(p.blob.data.clone()); if let Some(b) = &p.mask { blobs.push(b.clone()); } }
                    Some(Projection::Spherical(p)) => { blobs.push(p.blob.data.clone()); if let Some(b) = &p.mask { blobs.push(b.clone()); } }
                    Some(Projection::Cylindrical(p)) => { blobs.push(p.blob.data.clone()); if let Some(b) = &p.mask { blobs.push(b.clone()); } }
                    None => {}
                }
            }
            // and blob descriptors pointing at arbitrary places (extensions build them from XML)
            blobs.push(Blob::new(48, 16));
            blobs.push(Blob::new(48, u64::MAX));
            blobs.push(Blob::new((size as u64).saturating_sub(20), 1 << 40));
            for b in blobs {
                let mut m = Meter { dev: dev.clone(), max_read: 0, max_alloc: 0, max_work: 0, calls: 0 };
                let mut sink = std::io::sink();
                let r = m.call(|| rd.blob(&b, &mut sink));
                // bytes delivered with an Ok result (C06: never silently fewer or more than the descriptor says)
                let got = match &r { Ok(Ok(n)) => json!({"some": limbs_u64(*n)}), _ => json!({"none": 1}) };
                note("blob", outcome(&r), &m, json!({"len": limbs_u64(b.length), "got": got}));
            }
        }
    }
    json!({"ev":"untrusted","name":name,"size":size,"nproto":nproto,"ops":ops})
}

/// bases: writer programs (NDJSON); muts: mutation descriptors (NDJSON); process muts[from..]
pub fn run(bases: &str, muts: &str, from: usize, out: &str) -> std::io::Result<()> {
    alloc::set_cap(3usize << 30);
    let mut null = TraceOut::create("/dev/null")?;
    let mut imgs: Vec<Vec<u8>> = Vec::new();
    for line in std::fs::read_to_string(bases)?.lines() {
        if line.trim().is_empty() {
            continue;
        }
        let v: Value = serde_json::from_str(line).expect("base");
        if let Some(f) = v.get("file").and_then(|f| f.as_str()) {
            imgs.push(std::fs::read(f)?);
        } else {
            let dev = Dev::new();
            run_writer(&v, &dev, &mut null);
            imgs.push(dev.snapshot());
        }
    }
    let mut f = std::fs::OpenOptions::new().create(true).append(true).open(out)?;
    let progress = format!("{out}.progress");
    for (i, line) in std::fs::read_to_string(muts)?.lines().enumerate() {
        if i < from || line.trim().is_empty() {
            continue;
        }
        let m: Value = serde_json::from_str(line).expect("mutation");
        std::fs::write(&progress, format!("{i}"))?;
        let base = &imgs[m["base"].as_u64().unwrap_or(0) as usize];
        let img = mutate(base, &m);
        let mut ev = exercise(&img, &m["name"]);
        ev["idx"] = json!(i);
        writeln!(f, "{}", ev)?;
        f.flush()?;
    }
    std::fs::write(&progress, "done")?;
    Ok(())
}

/// write the base images as files (for the mutation generator)
pub fn dump_bases(bases: &str, outdir: &str) -> std::io::Result<()> {
    let mut null = TraceOut::create("/dev/null")?;
    for (i, line) in std::fs::read_to_string(bases)?.lines().enumerate() {
        if line.trim().is_empty() {
            continue;
        }
        let v: Value = serde_json::from_str(line).expect("base");
        if let Some(f) = v.get("file").and_then(|f| f.as_str()) {
            std::fs::copy(f, format!("{outdir}/base{i}.e57"))?;
            continue;
        }
        let dev = Dev::new();
        run_writer(&v, &dev, &mut null);
        std::fs::write(format!("{outdir}/base{i}.e57"), dev.snapshot())?;
    }
    Ok(())
}
