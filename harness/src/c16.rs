//! C16: device faults and short transfers. For every writer/reader program: a fault-free run counts
//! the device operations; the program is re-run once per operation index with an error injected
//! there. Chunking schedules re-run the program with short reads/writes. Records only.
use crate::dev::Dev;
use crate::page::TraceOut;
use crate::prog::{run_reader, run_writer, ReadCtx};
use crate::util::*;
use serde_json::{json, Value};

fn default_read_ops(prog: &Value) -> Vec<Value> {
    let n = prog["steps"].as_array().unwrap().iter().filter(|s| s["op"] == "pc").count();
    let mut ops = vec![json!({"op":"report"})];
    for k in 0..n {
        ops.push(json!({"op":"raw","pc":k}));
    }
    ops.push(json!({"op":"blobs"}));
    ops.push(json!({"op":"xml"}));
    ops.push(json!({"op":"validate_crc"}));
    ops.push(json!({"op":"raw_xml"}));
    ops
}

/// strip bulky payloads from kept events
fn slim(e: &Value) -> Value {
    let mut e = e.clone();
    for k in ["b", "pts", "bytes", "vals", "proto", "mask"] {
        if e.get(k).is_some() {
            e[k] = json!("<omitted>");
        }
    }
    if let Some(r) = e.get("res").cloned() {
        if r.get("ok").is_some() {
            e["res"] = json!({"ok":0});
        } else if r.get("err").is_some() {
            e["res"] = json!({"err":1});
        }
    }
    e
}

pub fn run(progs: &str, seed: u64, scheds: usize, out: &str) -> std::io::Result<()> {
    let mut t = TraceOut::create(out)?;
    let mut rng = Rng::new(seed);
    for (pi, line) in std::fs::read_to_string(progs)?.lines().enumerate() {
        if line.trim().is_empty() {
            continue;
        }
        let prog: Value = serde_json::from_str(line).expect("program");
        // ---- fault-free reference run (write-back device tracks what is durable)
        let dev = Dev::new();
        dev.0.borrow_mut().track_durable = true;
        let mut null = TraceOut::create("/dev/null")?;
        let w = run_writer(&prog, &dev, &mut null);
        if !(w.all_ok && w.finalize_called) {
            continue;
        }
        let nops_w = dev.opcount();
        let reference = dev.snapshot();
        let durable_ok = dev.0.borrow().durable == reference;
        t.ev(json!({"ev":"reset","run":pi,"name":prog["name"],"wops":nops_w}));
        t.ev(json!({"ev":"c16_ref","durable_is_complete": if durable_ok {1} else {0}, "size": reference.len()}));
        // ---- a fault at every device operation of the writer program; the program stops at the
        // first failed call (what the library does after a failed call is not constrained)
        let mut prog = prog.clone();
        prog["stop_on_err"] = json!(true);
        for i in 0..nops_w {
            let dev = Dev::new();
            dev.0.borrow_mut().track_durable = true;
            dev.set_fault(Some(i));
            let mut tt = TraceOut::create("/dev/null")?;
            tt.watch = Some(dev.clone());
            tt.keep = Some(Vec::new());
            let wo = run_writer(&prog, &dev, &mut tt);
            let evs = tt.keep.take().unwrap();
            // the event during which the fault fired
            let hit: Vec<Value> = evs.iter().filter(|e| e["fic"] == 1).map(slim).collect();
            let fin_ok = evs.iter().any(|e| e["ev"] == "w_finalize" && e["res"].get("ok").is_some());
            let durable = dev.0.borrow().durable.clone();
            t.ev(json!({"ev":"c16_wfault","at":i,"fired": if dev.faulted() {1} else {0},
                        "hit": hit, "panicked": if wo.panicked {1} else {0},
                        "finalize_ok": if fin_ok {1} else {0},
                        "durable_complete": if durable == reference {1} else {0}}));
        }
        // ---- reader program: fault at every device operation
        let ops = default_read_ops(&prog);
        let ctx = ReadCtx { direct_blobs: w.blobs.clone() };
        let ref_reads0 = read_digest(&reference, &ops, &ctx, vec![]);
        // (b) the same positions with the RETRYABLE error kind (Interrupted), once: loops inside std and the library
        // may repeat the operation, so the call may succeed -- but then nothing may be different
        for i in 0..nops_w {
            let dev = Dev::new();
            dev.0.borrow_mut().track_durable = true;
            dev.0.borrow_mut().fault_interrupted = true;
            dev.set_fault(Some(i));
            let mut tt = TraceOut::create("/dev/null")?;
            tt.keep = Some(Vec::new());
            let wo = run_writer(&prog, &dev, &mut tt);
            let evs = tt.keep.take().unwrap();
            let fin_ok = evs.iter().any(|e| e["ev"] == "w_finalize" && e["res"].get("ok").is_some());
            let durable = dev.0.borrow().durable.clone();
            let same_reads = if fin_ok && durable != reference { read_digest(&durable, &ops, &ctx, vec![]) == ref_reads0 } else { durable == reference };
            t.ev(json!({"ev":"c16_wintr","at":i,"fired": if dev.faulted() {1} else {0}, "panicked": if wo.panicked {1} else {0},
                        "all_ok": if wo.all_ok {1} else {0}, "finalize_ok": if fin_ok {1} else {0},
                        "durable_complete": if durable == reference {1} else {0}, "reads_complete": if same_reads {1} else {0}}));
        }
        // (c) a failed top-level finalize is tried again on the same writer (the device works again): Ok only with a complete file
        {
            let mut rprog = prog.clone();
            rprog["stop_on_err"] = json!(false);
            rprog["retry_finalize"] = json!(true);
            for i in 0..nops_w {
                let dev = Dev::new();
                dev.0.borrow_mut().track_durable = true;
                dev.set_fault(Some(i));
                let mut tt = TraceOut::create("/dev/null")?;
                tt.keep = Some(Vec::new());
                let wo = run_writer(&rprog, &dev, &mut tt);
                if !wo.retried {
                    continue;
                }
                let durable = dev.0.borrow().durable.clone();
                let reads_ok = wo.retry_ok && (durable == reference || read_digest(&durable, &ops, &ctx, vec![]) == ref_reads0);
                t.ev(json!({"ev":"c16_wretry","at":i,"panicked": if wo.panicked {1} else {0}, "retry_ok": if wo.retry_ok {1} else {0},
                            "reads_complete": if reads_ok {1} else {0}}));
            }
        }
        let rdev = Dev::from_bytes(reference.clone());
        {
            let mut tt = TraceOut::create("/dev/null")?;
            run_reader_on(&rdev, &ops, &ctx, &mut tt);
        }
        let nops_r = rdev.opcount();
        t.ev(json!({"ev":"c16_rref","rops":nops_r}));
        for i in 0..nops_r {
            let rdev = Dev::from_bytes(reference.clone());
            rdev.set_fault(Some(i));
            let mut tt = TraceOut::create("/dev/null")?;
            tt.watch = Some(rdev.clone());
            tt.keep = Some(Vec::new());
            run_reader_on(&rdev, &ops, &ctx, &mut tt);
            let evs = tt.keep.take().unwrap();
            let hit: Vec<Value> = evs.iter().filter(|e| e["fic"] == 1).map(slim).collect();
            let panicked = evs.iter().any(|e| e["res"].get("panic").is_some());
            t.ev(json!({"ev":"c16_rfault","at":i,"fired": if rdev.faulted() {1} else {0},"hit":hit,"panicked": if panicked {1} else {0}}));
        }
        // ---- chunking schedules: short writes while writing, short reads while reading
        // (d) the retryable error kind on the reading side: every operation fails or returns what it returns without the fault
        for i in 0..nops_r {
            let rdev = Dev::from_bytes(reference.clone());
            rdev.0.borrow_mut().fault_interrupted = true;
            rdev.set_fault(Some(i));
            let mut tt = TraceOut::create("/dev/null")?;
            tt.keep = Some(Vec::new());
            run_reader_on(&rdev, &ops, &ctx, &mut tt);
            let evs = tt.keep.take().unwrap();
            let panicked = evs.iter().any(|e| e["res"].get("panic").is_some());
            let mut bad: Vec<Value> = Vec::new();
            for (k, e) in evs.iter().enumerate() {
                let same = ref_reads0.get(k) == Some(e);
                let is_err = e["res"].get("err").is_some();
                if !(same || is_err) {
                    bad.push(json!([k, e["ev"]]));
                }
            }
            t.ev(json!({"ev":"c16_rintr","at":i,"fired": if rdev.faulted() {1} else {0},"panicked": if panicked {1} else {0},
                        "nbad": bad.len(), "bad": bad, "nops": evs.len()}));
        }
        let ref_reads = read_digest(&reference, &ops, &ctx, vec![]);
        for s in 0..scheds {
            let sched: Vec<usize> = match s {
                0 => vec![1],
                1 => vec![1, 2, 3],
                2 => vec![1023, 1, 512],
                _ => (0..(2 + rng.below(5))).map(|_| 1 + rng.below(1500) as usize).collect(),
            };
            let dev = Dev::recording();
            dev.set_chunks(sched.clone());
            let mut null = TraceOut::create("/dev/null")?;
            let wo = run_writer(&prog, &dev, &mut null);
            // the device read loops of this run (maximal runs of consecutive reads): [want, got] per read
            {
                let st = dev.0.borrow();
                let mut loops: Vec<Value> = Vec::new();
                let mut cur: Vec<Value> = Vec::new();
                for op in st.ops.iter() {
                    match op {
                        crate::dev::DevOp::Read { want, got, .. } => cur.push(json!([want, got])),
                        _ => {
                            if !cur.is_empty() {
                                loops.push(Value::Array(std::mem::take(&mut cur)));
                            }
                        }
                    }
                }
                if !cur.is_empty() {
                    loops.push(Value::Array(cur));
                }
                loops.truncate(300);
                t.ev(json!({"ev":"c16_readloops","sched":sched,"loops":loops}));
            }
            let same_file = wo.all_ok && dev.snapshot() == reference;
            let reads = read_digest(&reference, &ops, &ctx, sched.clone());
            t.ev(json!({"ev":"c16_chunk","sched":sched,"write_ok": if wo.all_ok {1} else {0},
                        "same_file": if same_file {1} else {0}, "same_reads": if reads == ref_reads {1} else {0}}));
        }
    }
    use std::io::Write;
    t.f.flush()
}

fn run_reader_on(dev: &Dev, ops: &[Value], ctx: &ReadCtx, t: &mut TraceOut) {
    crate::prog::run_reader_dev(dev, ops, ctx, t);
}

fn read_digest(img: &[u8], ops: &[Value], ctx: &ReadCtx, sched: Vec<usize>) -> Vec<Value> {
    let dev = Dev::from_bytes(img.to_vec());
    dev.set_chunks(sched);
    let mut tt = TraceOut::create("/dev/null").expect("null");
    tt.keep = Some(Vec::new());
    run_reader_on(&dev, ops, ctx, &mut tt);
    let _ = run_reader;
    tt.keep.take().unwrap()
}
