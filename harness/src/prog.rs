//! Interpreter for JSON "writer programs" and "reader programs" over the public API of e57,
//! recording every call with arguments and result as trace events (Trace_E57.tla).
use crate::conv::*;
use crate::dev::Dev;
use crate::page::{pat_data, TraceOut};
use crate::util::*;
use e57::*;
use serde_json::{json, Value};
use std::io::Cursor;

pub struct WriteOutcome {
    /// all calls up to and including finalize returned Ok
    pub all_ok: bool,
    /// a top-level finalize returned Ok and no call failed after the last such finalize: the device holds a finalized file
    /// although earlier calls may have been rejected (rejections must leave no trace)
    pub readable: bool,
    pub finalize_called: bool,
    pub panicked: bool,
    /// a failed top-level finalize was tried again (programs with `retry_finalize`), and how that ended
    pub retried: bool,
    pub retry_ok: bool,
    /// blobs added directly (offset, length)
    pub blobs: Vec<(u64, u64)>,
}

fn strv(v: &Value) -> String {
    v.as_str().unwrap_or("").to_string()
}
fn ostrv(v: &Value) -> Option<String> {
    if v.is_null() {
        None
    } else {
        Some(strv(v))
    }
}
fn of64v(v: &Value) -> Option<f64> {
    if v.is_null() {
        None
    } else {
        Some(get_f64(v))
    }
}

/// deterministic value generator for a record (range extremes, bit patterns, random in range)
pub fn gen_value(r: &Record, rng: &mut Rng, idx: usize) -> RecordValue {
    let int_in = |min: i64, max: i64, rng: &mut Rng| -> i64 {
        let range = (max as i128 - min as i128) as u128 + 1;
        let pick = |off: u128| (min as i128 + off as i128) as i64;
        match (idx + rng.below(3) as usize) % 7 {
            0 => min,
            1 => max,
            2 => pick(1 % range),
            3 => pick((range - 1).saturating_sub(1)),
            4 => pick((0x5555_5555_5555_5555u128) % range),
            5 => pick((0xAAAA_AAAA_AAAA_AAAAu128) % range),
            _ => pick(((rng.next() as u128) << 64 | rng.next() as u128) % range),
        }
    };
    match &r.data_type {
        RecordDataType::Integer { min, max } => RecordValue::Integer(int_in(*min, *max, rng)),
        RecordDataType::ScaledInteger { min, max, .. } => RecordValue::ScaledInteger(int_in(*min, *max, rng)),
        RecordDataType::Single { .. } => {
            let c = [0.0f32, -0.0, 1.0, -1.5, 0.25, 1024.5, -3.0e10, f32::MAX, f32::MIN_POSITIVE, 1.0e-40];
            let v = if rng.chance(1, 3) { c[rng.below(c.len() as u64) as usize] } else { ((rng.below(2_000_001) as f64 - 1_000_000.0) / 1024.0) as f32 };
            RecordValue::Single(v)
        }
        RecordDataType::Double { .. } => {
            let c = [0.0f64, -0.0, 1.0, -1.5, 0.1, 1.0e300, -2.5e-300, f64::MAX, f64::MIN_POSITIVE, 4.9e-324];
            let v = if rng.chance(1, 3) { c[rng.below(c.len() as u64) as usize] } else { (rng.below(2_000_001) as f64 - 1_000_000.0) / 1024.0 };
            RecordValue::Double(v)
        }
    }
}

fn points_ev(batch: Vec<Value>, reals: Vec<Value>, want_reals: bool) -> Value {
    if want_reals {
        json!({"ev":"pc_points","pts":batch,"reals":reals,"res":ok(json!(0))})
    } else {
        json!({"ev":"pc_points","pts":batch,"res":ok(json!(0))})
    }
}

/// the real value of every record of a point as f64 bit limbs (mechanical conversion:
/// f32 widened exactly, integers converted, scaled integers multiplied and offset)
fn real_tr(p: &[RecordValue], proto: &[Record]) -> Value {
    Value::Array(p.iter().zip(proto.iter()).map(|(v, r)| {
        let x = match (v, &r.data_type) {
            (RecordValue::Single(f), _) => *f as f64,
            (RecordValue::Double(f), _) => *f,
            (RecordValue::ScaledInteger(i), RecordDataType::ScaledInteger { scale, offset, .. }) => *i as f64 * *scale + *offset,
            (RecordValue::ScaledInteger(i), _) => *i as f64,
            (RecordValue::Integer(i), _) => *i as f64,
        };
        f64_bits(x)
    }).collect())
}

fn image_format(v: &Value) -> ImageFormat {
    if v.as_str() == Some("jpeg") {
        ImageFormat::Jpeg
    } else {
        ImageFormat::Png
    }
}

/// A data source that delivers at most `chunk` bytes per read call (0 = everything at once), like a pipe, a
/// partly consumed buffered reader or two chained readers. The bytes delivered are the same.
pub struct Pieces<'a> {
    pub data: &'a [u8],
    pub pos: usize,
    pub chunk: usize,
}
impl std::io::Read for Pieces<'_> {
    fn read(&mut self, buf: &mut [u8]) -> std::io::Result<usize> {
        let left = self.data.len() - self.pos;
        let mut n = left.min(buf.len());
        if self.chunk > 0 {
            n = n.min(self.chunk);
        }
        buf[..n].copy_from_slice(&self.data[self.pos..self.pos + n]);
        self.pos += n;
        Ok(n)
    }
}

/// Run the writer part of a program against `dev`. Every API call becomes one trace event.
pub fn run_writer(prog: &Value, dev: &Dev, t: &mut TraceOut) -> WriteOutcome {
    let mut out = WriteOutcome { all_ok: true, readable: false, finalize_called: false, panicked: false, retried: false, retry_ok: false, blobs: vec![] };
    let steps = prog["steps"].as_array().cloned().unwrap_or_default();
    let guid = strv(&steps[0]["guid"]);
    let mut call = 0usize;
    dev.set_call(call);
    let r = catch(|| E57Writer::new(dev.clone(), &guid));
    let mut w = match r {
        Ok(Ok(w)) => {
            t.ev(json!({"ev":"w_new","guid":guid,"res":ok(json!(0))}));
            w
        }
        Ok(Err(_)) => {
            t.ev(json!({"ev":"w_new","guid":guid,"res":err()}));
            out.all_ok = false;
            return out;
        }
        Err(m) => {
            t.ev(json!({"ev":"w_new","guid":guid,"res":{"panic":m}}));
            out.all_ok = false;
            out.panicked = true;
            return out;
        }
    };
    let mut note = |res: &Value, out: &mut WriteOutcome| -> bool {
        if res.get("panic").is_some() {
            out.panicked = true;
        }
        if !is_ok(res) {
            out.all_ok = false;
            out.readable = false;
        }
        is_ok(res)
    };
    let stop_on_err = prog["stop_on_err"].as_bool().unwrap_or(false);
    // bytes of text handed to the writer that the XML must contain (a lower bound of the XML length, counted mechanically)
    let mut text_lb: u64 = 0;
    for step in steps.iter().skip(1) {
        call += 1;
        dev.set_call(call);
        if out.panicked || (stop_on_err && !out.all_ok) {
            break;
        }
        match step["op"].as_str().unwrap_or("") {
            "coord" if step["v"].is_object() => {
                // a long text given as a repeated unit; recorded in the same compact form
                let (unit, n) = (strv(&step["v"]["rep"]), step["v"]["n"].as_u64().unwrap_or(0) as usize);
                let text = unit.repeat(n);
                text_lb = text.len() as u64;
                w.set_coordinate_metadata(Some(text));
                t.ev(json!({"ev":"w_coord","v":{"some": format!("<{n} x {unit}>")},"res":ok(json!(0))}));
            }
            "coord" => {
                text_lb = ostrv(&step["v"]).map(|s| s.len() as u64).unwrap_or(0);
                w.set_coordinate_metadata(ostrv(&step["v"]));
                t.ev(json!({"ev":"w_coord","v":ostr(&ostrv(&step["v"])),"res":ok(json!(0))}));
            }
            "creation" => {
                let v = if step["v"].is_null() { None } else { Some(datetime_from(&step["v"])) };
                t.ev(json!({"ev":"w_creation","v":opt(&v, datetime_tr),"res":ok(json!(0))}));
                w.set_creation(v);
            }
            "ext" => {
                let (ns, url) = (strv(&step["ns"]), strv(&step["url"]));
                let r = catch(|| w.register_extension(Extension::new(&ns, &url)));
                let res = res_unit(r);
                t.ev(json!({"ev":"w_ext","ns":ns,"url":url,"nameok": if step["nameok"].as_bool().unwrap_or(true) {1} else {0},"res":res}));
                note(&res, &mut out);
            }
            "blob" => {
                let data = pat_data(step["salt"].as_u64().unwrap_or(0) as usize, step["len"].as_u64().unwrap_or(0) as usize);
                let chunk = step["src_chunk"].as_u64().or(prog["src_chunk"].as_u64()).unwrap_or(0) as usize;
                let r = catch(|| w.add_blob(&mut Pieces { data: &data, pos: 0, chunk }));
                let res = match r {
                    Ok(Ok(b)) => {
                        out.blobs.push((b.offset, b.length));
                        ok(blob_tr(&b))
                    }
                    Ok(Err(_)) => err(),
                    Err(m) => json!({"panic":m}),
                };
                t.ev(json!({"ev":"w_blob","b":jbytes(&data),"res":res}));
                note(&res, &mut out);
            }
            "pc" => {
                let proto: Vec<Record> = step["proto"].as_array().cloned().unwrap_or_default().iter().map(record_from).collect();
                let pguid = strv(&step["guid"]);
                let proto_tr = Value::Array(proto.iter().map(record_tr).collect());
                let namesok = if step["namesok"].as_bool().unwrap_or(true) { 1 } else { 0 };
                let r = catch(|| w.add_pointcloud(&pguid, proto.clone()));
                let mut pcw = match r {
                    Ok(Ok(p)) => {
                        t.ev(json!({"ev":"pc_new","guid":pguid,"proto":proto_tr,"namesok":namesok,"res":ok(json!(0))}));
                        p
                    }
                    Ok(Err(_)) => {
                        t.ev(json!({"ev":"pc_new","guid":pguid,"proto":proto_tr,"namesok":namesok,"res":err()}));
                        out.all_ok = false;
                        continue;
                    }
                    Err(m) => {
                        t.ev(json!({"ev":"pc_new","guid":pguid,"proto":proto_tr,"namesok":namesok,"res":{"panic":m}}));
                        out.all_ok = false;
                        out.panicked = true;
                        break;
                    }
                };
                for s in step["setters"].as_array().cloned().unwrap_or_default() {
                    let f = strv(&s["f"]);
                    let v = &s["v"];
                    let tv = match f.as_str() {
                        "name" => { pcw.set_name(ostrv(v)); ostr(&ostrv(v)) }
                        "description" => { pcw.set_description(ostrv(v)); ostr(&ostrv(v)) }
                        "sensor_vendor" => { pcw.set_sensor_vendor(ostrv(v)); ostr(&ostrv(v)) }
                        "sensor_model" => { pcw.set_sensor_model(ostrv(v)); ostr(&ostrv(v)) }
                        "sensor_serial" => { pcw.set_sensor_serial(ostrv(v)); ostr(&ostrv(v)) }
                        "sensor_hw" => { pcw.set_sensor_hw_version(ostrv(v)); ostr(&ostrv(v)) }
                        "sensor_sw" => { pcw.set_sensor_sw_version(ostrv(v)); ostr(&ostrv(v)) }
                        "sensor_fw" => { pcw.set_sensor_fw_version(ostrv(v)); ostr(&ostrv(v)) }
                        "temperature" => { pcw.set_temperature(of64v(v)); of64(&of64v(v)) }
                        "humidity" => { pcw.set_humidity(of64v(v)); of64(&of64v(v)) }
                        "pressure" => { pcw.set_atmospheric_pressure(of64v(v)); of64(&of64v(v)) }
                        "original_guids" => {
                            let g: Option<Vec<String>> = if v.is_null() { None } else { Some(v.as_array().unwrap().iter().map(strv).collect()) };
                            let tr = opt(&g, |x| json!(x));
                            pcw.set_original_guids(g);
                            tr
                        }
                        "transform" => {
                            let x = if v.is_null() { None } else { Some(transform_from(v)) };
                            let tr = opt(&x, transform_tr);
                            pcw.set_transform(x);
                            tr
                        }
                        "acq_start" => {
                            let x = if v.is_null() { None } else { Some(datetime_from(v)) };
                            let tr = opt(&x, datetime_tr);
                            pcw.set_acquisition_start(x);
                            tr
                        }
                        "acq_end" => {
                            let x = if v.is_null() { None } else { Some(datetime_from(v)) };
                            let tr = opt(&x, datetime_tr);
                            pcw.set_acquisition_end(x);
                            tr
                        }
                        "intensity_limits" => {
                            let x = if v.is_null() { None } else { Some(intensity_limits_from(v)) };
                            let tr = opt(&x, intensity_limits_tr);
                            pcw.set_intensity_limits(x);
                            tr
                        }
                        "color_limits" => {
                            let x = if v.is_null() { None } else { Some(color_limits_from(v)) };
                            let tr = opt(&x, color_limits_tr);
                            pcw.set_color_limits(x);
                            tr
                        }
                        other => panic!("harness: unknown pc setter {other}"),
                    };
                    t.ev(json!({"ev":"pc_set","f":f,"v":tv,"res":ok(json!(0))}));
                }
                // points
                let pts_spec = &step["points"];
                let mut points: Vec<Vec<RecordValue>> = Vec::new();
                if let Some(list) = pts_spec.get("list").and_then(|l| l.as_array()) {
                    for p in list {
                        points.push(p.as_array().unwrap().iter().map(value_from).collect());
                    }
                } else if let Some(n) = pts_spec.get("n").and_then(|n| n.as_u64()) {
                    let mut rng = Rng::new(pts_spec["seed"].as_u64().unwrap_or(1));
                    for i in 0..n as usize {
                        points.push(proto.iter().map(|r| gen_value(r, &mut rng, i)).collect());
                    }
                }
                let mut batch: Vec<Value> = Vec::new();
                let mut reals: Vec<Value> = Vec::new();
                let want_reals = prog["reals"].as_bool().unwrap_or(false);
                let mut dead = false;
                for p in points {
                    let tr = point_tr(&p);
                    let rl = if want_reals { real_tr(&p, &proto) } else { Value::Null };
                    let f0 = dev.faulted();
                    let r = catch(|| pcw.add_point(p));
                    let fic = dev.faulted() && !f0;
                    match r {
                        Ok(Ok(())) if !fic => {
                            batch.push(tr);
                            if want_reals {
                                reals.push(rl);
                            }
                            if batch.len() >= 4096 {
                                t.ev(points_ev(batch, reals, want_reals));
                                batch = Vec::new();
                                reals = Vec::new();
                            }
                        }
                        other => {
                            if !batch.is_empty() {
                                let mut e = points_ev(batch, reals, want_reals);
                                e["fic"] = json!(0);
                                t.ev(e);
                                batch = Vec::new();
                                reals = Vec::new();
                            }
                            let res = res_unit(other);
                            t.ev(json!({"ev":"pc_point","vals":tr,"res":res,"fic": if fic {1} else {0}}));
                            note(&res, &mut out);
                            if out.panicked {
                                dead = true;
                                break;
                            }
                        }
                    }
                }
                if !batch.is_empty() {
                    t.ev(points_ev(batch, reals, want_reals));
                }
                if dead {
                    break;
                }
                if step["end"].as_str() == Some("drop") {
                    drop(pcw);
                    t.ev(json!({"ev":"pc_drop","res":ok(json!(0))}));
                } else {
                    let r = catch(|| pcw.finalize());
                    let res = res_unit(r);
                    t.ev(json!({"ev":"pc_finalize","res":res}));
                    note(&res, &mut out);
                    if step["end"].as_str() == Some("finalize_twice") {
                        let r = catch(|| pcw.finalize());
                        t.ev(json!({"ev":"pc_finalize_again","res":res_unit(r)}));
                    }
                }
            }
            "image" => {
                let iguid = strv(&step["guid"]);
                let r = catch(|| w.add_image(&iguid));
                let mut iw = match r {
                    Ok(Ok(i)) => {
                        t.ev(json!({"ev":"im_new","guid":iguid,"res":ok(json!(0))}));
                        i
                    }
                    other => {
                        let res = res_unit(other.map(|r| r.map(|_| ())));
                        t.ev(json!({"ev":"im_new","guid":iguid,"res":res}));
                        note(&res, &mut out);
                        continue;
                    }
                };
                for s in step["setters"].as_array().cloned().unwrap_or_default() {
                    let f = strv(&s["f"]);
                    let v = &s["v"];
                    let tv = match f.as_str() {
                        "name" => { iw.set_name(&strv(v)); json!(strv(v)) }
                        "description" => { iw.set_description(&strv(v)); json!(strv(v)) }
                        "pc_guid" => { iw.set_pointcloud_guid(&strv(v)); json!(strv(v)) }
                        "sensor_vendor" => { iw.set_sensor_vendor(&strv(v)); json!(strv(v)) }
                        "sensor_model" => { iw.set_sensor_model(&strv(v)); json!(strv(v)) }
                        "sensor_serial" => { iw.set_sensor_serial(&strv(v)); json!(strv(v)) }
                        "transform" => { let x = transform_from(v); let tr = transform_tr(&x); iw.set_transform(x); tr }
                        "acquisition" => { let x = datetime_from(v); let tr = datetime_tr(&x); iw.set_acquisition(x); tr }
                        other => panic!("harness: unknown image setter {other}"),
                    };
                    t.ev(json!({"ev":"im_set","f":f,"v":tv,"res":ok(json!(0))}));
                }
                for rep in step["reps"].as_array().cloned().unwrap_or_default() {
                    let kind = strv(&rep["kind"]);
                    let data = pat_data(rep["salt"].as_u64().unwrap_or(0) as usize, rep["len"].as_u64().unwrap_or(0) as usize);
                    let mask: Option<Vec<u8>> = if rep["mask"].is_null() { None } else {
                        Some(pat_data(rep["mask"]["salt"].as_u64().unwrap_or(0) as usize, rep["mask"]["len"].as_u64().unwrap_or(0) as usize))
                    };
                    let p = &rep["props"];
                    let fmt = image_format(&rep["fmt"]);
                    let (w_, h_) = (p["width"].as_u64().unwrap_or(1) as u32, p["height"].as_u64().unwrap_or(1) as u32);
                    let g = |k: &str| if p[k].is_null() { 0.0 } else { get_f64(&p[k]) };
                    let chunk = step["src_chunk"].as_u64().or(prog["src_chunk"].as_u64()).unwrap_or(0) as usize;
                    let mut dcur = Pieces { data: &data, pos: 0, chunk };
                    let mut mcur = mask.as_ref().map(|m| Pieces { data: m, pos: 0, chunk });
                    let props_tr;
                    let r = match kind.as_str() {
                        "visual" => {
                            props_tr = json!({"width":w_,"height":h_});
                            catch(|| iw.add_visual_reference(fmt, &mut dcur, VisualReferenceImageProperties { width: w_, height: h_ },
                                mcur.as_mut().map(|c| c as &mut dyn std::io::Read)))
                        }
                        "pinhole" => {
                            let pr = PinholeImageProperties { width: w_, height: h_, focal_length: g("focal"), pixel_width: g("pw"), pixel_height: g("ph"), principal_x: g("px"), principal_y: g("py") };
                            props_tr = json!({"width":w_,"height":h_,"focal":f64_meta(pr.focal_length),"pw":f64_meta(pr.pixel_width),"ph":f64_meta(pr.pixel_height),"px":f64_meta(pr.principal_x),"py":f64_meta(pr.principal_y)});
                            catch(|| iw.add_pinhole(fmt, &mut dcur, pr, mcur.as_mut().map(|c| c as &mut dyn std::io::Read)))
                        }
                        "spherical" => {
                            let pr = SphericalImageProperties { width: w_, height: h_, pixel_width: g("pw"), pixel_height: g("ph") };
                            props_tr = json!({"width":w_,"height":h_,"pw":f64_meta(pr.pixel_width),"ph":f64_meta(pr.pixel_height)});
                            catch(|| iw.add_spherical(fmt, &mut dcur, pr, mcur.as_mut().map(|c| c as &mut dyn std::io::Read)))
                        }
                        _ => {
                            let pr = CylindricalImageProperties { width: w_, height: h_, radius: g("radius"), principal_y: g("py"), pixel_width: g("pw"), pixel_height: g("ph") };
                            props_tr = json!({"width":w_,"height":h_,"radius":f64_meta(pr.radius),"py":f64_meta(pr.principal_y),"pw":f64_meta(pr.pixel_width),"ph":f64_meta(pr.pixel_height)});
                            catch(|| iw.add_cylindrical(fmt, &mut dcur, pr, mcur.as_mut().map(|c| c as &mut dyn std::io::Read)))
                        }
                    };
                    let res = res_unit(r);
                    t.ev(json!({"ev":"im_add","kind":kind,"fmt":rep["fmt"].as_str().unwrap_or("png"),"b":jbytes(&data),
                                "mask":opt(&mask, |m| jbytes(m)),"props":props_tr,"res":res}));
                    note(&res, &mut out);
                }
                if step["end"].as_str() == Some("drop") {
                    drop(iw);
                    t.ev(json!({"ev":"im_drop","res":ok(json!(0))}));
                } else {
                    let r = catch(|| iw.finalize());
                    let res = res_unit(r);
                    t.ev(json!({"ev":"im_finalize","res":res}));
                    note(&res, &mut out);
                    if step["end"].as_str() == Some("finalize_twice") {
                        let r = catch(|| iw.finalize());
                        t.ev(json!({"ev":"im_finalize_again","res":res_unit(r)}));
                    }
                }
            }
            "finalize" => {
                out.finalize_called = true;
                let ins = step.get("xml_replace").cloned();
                let splice = step.get("xml_splice").cloned();
                if let Some(sp) = &splice {
                    // insert text at byte offsets of the generated XML (offsets refer to the unmodified text)
                    let mut v: Vec<(usize, String)> = sp.as_array().unwrap().iter().map(|p| (p[0].as_u64().unwrap() as usize, p[1].as_str().unwrap().to_string())).collect();
                    v.sort_by(|a, b| b.0.cmp(&a.0));
                    let r = catch(|| w.finalize_customized_xml(|xml| {
                        let mut x = xml.into_bytes();
                        for (off, text) in &v {
                            let off = (*off).min(x.len());
                            x.splice(off..off, text.bytes());
                        }
                        match String::from_utf8(x) { Ok(s) => Ok(s), Err(_) => Error::invalid("splice produced invalid UTF-8") }
                    }));
                    let res = res_unit(r);
                    t.ev(json!({"ev":"w_finalize","custom": true,"text_lb":text_lb,"nonxml": if prog["nonxml"] == true {1} else {0},"res":res}));
                    if note(&res, &mut out) {
                        out.readable = true;
                    }
                    continue;
                }
                let r = catch(|| match &ins {
                    Some(rep) if rep.is_array() => w.finalize_customized_xml(|xml| {
                        let mut x = xml;
                        for pair in rep.as_array().unwrap() {
                            if pair[0] == "\u{0}ALL-LINE-FEEDS-BUT-THE-FIRST" {
                                // the XML declaration on its own line, everything else on one long line
                                if let Some((head, tail)) = x.clone().split_once('\n') {
                                    x = format!("{head}\n{}", tail.trim_end_matches('\n').replace('\n', pair[1].as_str().unwrap()));
                                }
                                continue;
                            }
                            x = x.replacen(pair[0].as_str().unwrap(), pair[1].as_str().unwrap(), 1);
                        }
                        Ok(x)
                    }),
                    _ => w.finalize(),
                });
                let res = res_unit(r);
                t.ev(json!({"ev":"w_finalize","custom": ins.is_some(),"text_lb":text_lb,"nonxml": if prog["nonxml"] == true {1} else {0},"res":res}));
                if note(&res, &mut out) {
                    out.readable = true;
                } else if prog["retry_finalize"] == true && !out.panicked {
                    // the caller tries once more after a failed finalize (C16: Ok only with a complete file)
                    let r = catch(|| w.finalize());
                    let res = res_unit(r);
                    out.retried = true;
                    out.retry_ok = res.get("ok").is_some();
                    t.ev(json!({"ev":"w_finalize_retry","res":res}));
                }
            }
            other => panic!("harness: unknown step {other}"),
        }
    }
    drop(w);
    out
}

pub struct ReadCtx {
    pub direct_blobs: Vec<(u64, u64)>,
}

fn collect_raw<T: std::io::Read + std::io::Seek>(r: &mut E57Reader<T>, pc: &PointCloud, take: Option<u64>) -> Value {
    let it = catch(|| r.pointcloud_raw(pc));
    let mut it = match it {
        Ok(Ok(i)) => i,
        Ok(Err(_)) => return json!({"err":1,"got":[],"stage":"open"}),
        Err(m) => return json!({"panic":m}),
    };
    let mut pts: Vec<Value> = Vec::new();
    loop {
        if let Some(t) = take {
            if pts.len() as u64 >= t {
                return json!({"ok": pts, "end": 0});
            }
        }
        let n = catch(|| it.next());
        match n {
            Ok(None) => return json!({"ok": pts, "end": 1}),
            Ok(Some(Ok(p))) => pts.push(point_tr(&p)),
            Ok(Some(Err(_))) => return json!({"err":1,"got":pts,"stage":"next"}),
            Err(m) => return json!({"panic":m}),
        }
        if pts.len() > 5_000_000 {
            return json!({"runaway": pts.len()});
        }
    }
}

/// Run reader operations on `img`; every operation is one trace event.
pub fn run_reader(img: &[u8], ops: &[Value], ctx: &ReadCtx, t: &mut TraceOut) {
    let dev = Dev::from_bytes(img.to_vec());
    run_reader_dev(&dev, ops, ctx, t)
}

/// same, on a caller-supplied (possibly faulty or chunking) device
pub fn run_reader_dev(dev: &Dev, ops: &[Value], ctx: &ReadCtx, t: &mut TraceOut) {
    let r = catch(|| E57Reader::new(dev.clone()));
    let mut rd = match r {
        Ok(Ok(r)) => {
            t.ev(json!({"ev":"r_open","res":ok(json!(0))}));
            r
        }
        Ok(Err(_)) => {
            t.ev(json!({"ev":"r_open","res":err()}));
            return;
        }
        Err(m) => {
            t.ev(json!({"ev":"r_open","res":{"panic":m}}));
            return;
        }
    };
    for op in ops {
        match op["op"].as_str().unwrap_or("") {
            "report" => {
                let rep = catch(|| {
                    let h = rd.header();
                    json!({
                        "header": {"major": h.major, "minor": h.minor, "phys_length": limbs_u64(h.phys_length),
                                   "xml_offset": limbs_u64(h.phys_xml_offset), "xml_length": limbs_u64(h.xml_length), "page_size": limbs_u64(h.page_size)},
                        "guid": rd.guid(), "format": rd.format_name(),
                        "lib": opt(&rd.library_version().map(|s| s.to_string()), |s| json!(s)),
                        "coord": opt(&rd.coordinate_metadata().map(|s| s.to_string()), |s| json!(s)),
                        "creation": opt(&rd.creation(), datetime_tr),
                        "ext": Value::Array(rd.extensions().iter().map(|e| json!({"ns": e.namespace, "url": e.url})).collect()),
                        "pcs": Value::Array(rd.pointclouds().iter().map(pointcloud_tr).collect()),
                        "images": Value::Array(rd.images().iter().map(image_tr).collect()),
                    })
                });
                match rep {
                    Ok(v) => t.ev(json!({"ev":"r_report","res":ok(v)})),
                    Err(m) => t.ev(json!({"ev":"r_report","res":{"panic":m}})),
                }
            }
            "raw" => {
                let pcs = rd.pointclouds();
                let i = op["pc"].as_u64().unwrap_or(0) as usize;
                if i >= pcs.len() {
                    continue;
                }
                let take = op.get("take").and_then(|x| x.as_u64());
                let res = collect_raw(&mut rd, &pcs[i], take);
                t.ev(json!({"ev":"r_raw","pc":i + 1,"take":opt(&take, |x| json!(x)),"res":res}));
            }
            "queue" => {
                let pcs = rd.pointclouds();
                let i = op["pc"].as_u64().unwrap_or(0) as usize;
                let max = op.get("max_records").and_then(|x| x.as_u64()).unwrap_or(u64::MAX);
                if i >= pcs.len() || pcs[i].records > max {
                    continue;
                }
                crate::queue::queue_op(&dev.snapshot(), &pcs[i], i, op["policy"].as_str().unwrap_or("iter"), op["seed"].as_u64().unwrap_or(1), t);
            }
            "blobs" => {
                // every blob we know of: direct ones and those the reader lists for images
                let mut all: Vec<(String, u64, u64)> = ctx.direct_blobs.iter().map(|(o, l)| ("direct".to_string(), *o, *l)).collect();
                for (k, im) in rd.images().iter().enumerate() {
                    let mut push = |tag: &str, b: &Blob| all.push((format!("image{}:{}", k + 1, tag), b.offset, b.length));
                    if let Some(v) = &im.visual_reference {
                        push("visual", &v.blob.data);
                        if let Some(m) = &v.mask {
                            push("visual_mask", m);
                        }
                    }
                    match &im.projection {
                        Some(Projection::Pinhole(p)) => { push("proj", &p.blob.data); if let Some(m) = &p.mask { push("proj_mask", m); } }
                        Some(Projection::Spherical(p)) => { push("proj", &p.blob.data); if let Some(m) = &p.mask { push("proj_mask", m); } }
                        Some(Projection::Cylindrical(p)) => { push("proj", &p.blob.data); if let Some(m) = &p.mask { push("proj_mask", m); } }
                        None => {}
                    }
                }
                for (tag, off, len) in all {
                    let mut buf: Vec<u8> = Vec::new();
                    let r = catch(|| rd.blob(&Blob::new(off, len), &mut buf));
                    let res = match r {
                        Ok(Ok(n)) => ok(json!({"n": limbs_u64(n), "b": jbytes(&buf)})),
                        Ok(Err(_)) => err(),
                        Err(m) => json!({"panic":m}),
                    };
                    t.ev(json!({"ev":"r_blob","tag":tag,"off":limbs_u64(off),"len":limbs_u64(len),"res":res}));
                }
            }
            "hints" => {
                // Iterator::size_hint of both iterators: before, after one step, after the last step
                let pcs = rd.pointclouds();
                let i = op["pc"].as_u64().unwrap_or(0) as usize;
                if i >= pcs.len() {
                    continue;
                }
                let r = catch(|| -> std::result::Result<Value, ()> {
                    let mut out = Vec::new();
                    {
                        let mut it = rd.pointcloud_raw(&pcs[i]).map_err(|_| ())?;
                        let mut n = 0u64;
                        let h = it.size_hint();
                        out.push(json!(["raw", limbs_u64(n), limbs_u64(h.0 as u64), opt(&h.1, |x| limbs_u64(*x as u64))]));
                        while let Some(p) = it.next() {
                            p.map_err(|_| ())?;
                            n += 1;
                            if n == 1 || n == pcs[i].records {
                                let h = it.size_hint();
                                out.push(json!(["raw", limbs_u64(n), limbs_u64(h.0 as u64), opt(&h.1, |x| limbs_u64(*x as u64))]));
                            }
                        }
                    }
                    {
                        let mut it = rd.pointcloud_simple(&pcs[i]).map_err(|_| ())?;
                        let mut n = 0u64;
                        let h = it.size_hint();
                        out.push(json!(["simple", limbs_u64(n), limbs_u64(h.0 as u64), opt(&h.1, |x| limbs_u64(*x as u64))]));
                        while let Some(p) = it.next() {
                            p.map_err(|_| ())?;
                            n += 1;
                            if n == 1 || n == pcs[i].records {
                                let h = it.size_hint();
                                out.push(json!(["simple", limbs_u64(n), limbs_u64(h.0 as u64), opt(&h.1, |x| limbs_u64(*x as u64))]));
                            }
                        }
                    }
                    Ok(Value::Array(out))
                });
                let res = match r {
                    Ok(Ok(v)) => ok(v),
                    Ok(Err(())) => err(),
                    Err(m) => json!({"panic":m}),
                };
                t.ev(json!({"ev":"r_hints","pc":i + 1,"records":limbs_u64(pcs[i].records),"res":res}));
            }
            "simple_count" => {
                let pcs = rd.pointclouds();
                let i = op["pc"].as_u64().unwrap_or(0) as usize;
                if i >= pcs.len() {
                    continue;
                }
                let r = catch(|| -> std::result::Result<u64, u64> {
                    let it = rd.pointcloud_simple(&pcs[i]).map_err(|_| 0u64)?;
                    let mut n = 0u64;
                    for p in it {
                        match p {
                            Ok(_) => n += 1,
                            Err(_) => return Err(n),
                        }
                    }
                    Ok(n)
                });
                let res = match r {
                    Ok(Ok(n)) => ok(limbs_u64(n)),
                    Ok(Err(n)) => json!({"err":1,"got":limbs_u64(n)}),
                    Err(m) => json!({"panic":m}),
                };
                t.ev(json!({"ev":"r_simple_count","pc":i + 1,"res":res}));
            }
            "xml" => {
                let x = rd.xml().as_bytes().to_vec();
                t.ev(json!({"ev":"r_xml","res":ok(jbytes(&x))}));
            }
            "validate_crc" => {
                let r = catch(|| E57Reader::validate_crc(dev.clone()));
                let res = match r { Ok(Ok(p)) => ok(json!(p)), Ok(Err(_)) => err(), Err(m) => json!({"panic":m}) };
                t.ev(json!({"ev":"r_validate_crc","res":res}));
            }
            "raw_xml" => {
                let r = catch(|| E57Reader::raw_xml(dev.clone()));
                let res = match r { Ok(Ok(b)) => ok(jbytes(&b)), Ok(Err(_)) => err(), Err(m) => json!({"panic":m}) };
                t.ev(json!({"ev":"r_raw_xml","res":res}));
            }
            _ => {}
        }
    }
}

/// Read files produced by the independent encoder: each input line is {"name", "scene", "bytes"}.
/// Emits reset, s_scene, final and the reader events.
pub fn read_cases(cases: &str, from: usize, npol: usize, out: &str) -> std::io::Result<()> {
    use std::io::{BufRead, Write};
    // appends, and reports the case in progress, so that a supervisor can attribute an abort and resume behind it
    let mut t = TraceOut::append(out)?;
    let progress = format!("{out}.progress");
    let f = std::io::BufReader::new(std::fs::File::open(cases)?);
    for (i, line) in f.lines().enumerate() {
        let line = line?;
        if i < from || line.trim().is_empty() {
            continue;
        }
        t.f.flush()?;
        std::fs::write(&progress, format!("{i}"))?;
        let c: Value = serde_json::from_str(&line).expect("case json");
        let img: Vec<u8> = c["bytes"].as_array().unwrap().iter().map(|x| x.as_u64().unwrap() as u8).collect();
        t.ev(json!({"ev":"reset","run":i,"name":c["name"]}));
        t.ev(json!({"ev":"s_scene","scene":c["scene"]}));
        t.ev(json!({"ev":"final","bytes":c["bytes"]}));
        let n = c["scene"]["pcs"].as_array().map(|a| a.len()).unwrap_or(0);
        let mut ops = vec![json!({"op":"report"})];
        for k in 0..n {
            ops.push(json!({"op":"raw","pc":k}));
            ops.push(json!({"op":"simple_count","pc":k}));
            // schedules of the directly driven queue reader: all four, or two of them rotating with the case
            let all = ["iter", "eager", "random", "random"];
            for pi in 0..npol.min(4) {
                let policy = all[(i + pi * (if npol >= 4 { 1 } else { 2 })) % 4];
                ops.push(json!({"op":"queue","pc":k,"policy":policy,"seed":i * 7 + pi}));
            }
        }
        ops.push(json!({"op":"xml"}));
        run_reader(&img, &ops, &ReadCtx { direct_blobs: vec![] }, &mut t);
    }
    t.f.flush()?;
    std::fs::write(&progress, "done")
}

/// Run a list of programs (NDJSON, one program per line): write, snapshot, read back.
/// With `from` the run is supervised: output is appended, the program in progress is reported in <out>.progress
pub fn run_programs(progs: &str, from: Option<usize>, out: &str) -> std::io::Result<()> {
    use std::io::Write;
    let mut t = if from.is_some() { TraceOut::append(out)? } else { TraceOut::create(out)? };
    let progress = format!("{out}.progress");
    for (i, line) in std::fs::read_to_string(progs)?.lines().enumerate() {
        if line.trim().is_empty() || i < from.unwrap_or(0) {
            continue;
        }
        if from.is_some() {
            t.f.flush()?;
            std::fs::write(&progress, format!("{i}"))?;
        }
        let prog: Value = serde_json::from_str(line).expect("program json");
        t.ev(json!({"ev":"reset","run":i,"name":prog["name"]}));
        let dev = Dev::new();
        if let Some(c) = prog.get("chunks").and_then(|c| c.as_array()) {
            dev.set_chunks(c.iter().map(|x| x.as_u64().unwrap() as usize).collect());
        }
        let outc = run_writer(&prog, &dev, &mut t);
        dev.set_chunks(vec![]);
        if !(outc.readable && !outc.panicked) {
            continue;
        }
        let img = dev.snapshot();
        if prog["big"] == true {
            // a very large file: only whether the library can open what it wrote (the image is not recorded)
            let r = catch(|| E57Reader::new(Dev::from_bytes(img.clone())).map(|_| ()));
            t.ev(json!({"ev":"big_readback","size":img.len(),"res":res_unit(r)}));
            continue;
        }
        t.ev(json!({"ev":"final","bytes":jbytes(&img)}));
        let ops = prog["read"].as_array().cloned().unwrap_or_else(|| vec![json!({"op":"report"}), json!({"op":"raw_all"}), json!({"op":"blobs"}), json!({"op":"xml"})]);
        let mut ops2 = Vec::new();
        for o in ops {
            if o["op"] == "raw_all" {
                let n = prog["steps"].as_array().unwrap().iter().filter(|s| s["op"] == "pc").count();
                for k in 0..n {
                    ops2.push(json!({"op":"raw","pc":k}));
                    ops2.push(json!({"op":"hints","pc":k}));
                    ops2.push(json!({"op":"queue","pc":k,"policy": if (i + k) % 2 == 0 {"random"} else {"iter"},"seed":i,"max_records":3000}));
                }
            } else {
                ops2.push(o);
            }
        }
        run_reader(&img, &ops2, &ReadCtx { direct_blobs: outc.blobs.clone() }, &mut t);
    }
    t.f.flush()?;
    if from.is_some() {
        std::fs::write(&progress, "done")?;
    }
    Ok(())
}
