//! lib-dump: what the library itself returns for a file (XML, raw XML, image blobs, raw points),
//! as JSON, for comparison with the outputs of the command line tools (C20).
use crate::conv::*;
use crate::dev::Dev;
use crate::util::*;
use e57::*;
use serde_json::{json, Value};

pub fn run(file: &str, out: &str) -> std::io::Result<()> {
    let img = std::fs::read(file)?;
    let mut res = json!({});
    res["validate_crc"] = json!(E57Reader::validate_crc(Dev::from_bytes(img.clone())).is_ok());
    res["raw_xml"] = match E57Reader::raw_xml(Dev::from_bytes(img.clone())) {
        Ok(b) => json!({"ok": jbytes(&b)}),
        Err(_) => json!({"err":1}),
    };
    match E57Reader::new(Dev::from_bytes(img.clone())) {
        Ok(mut rd) => {
            res["open"] = json!(true);
            res["xml"] = jbytes(rd.xml().as_bytes());
            let mut blobs = Vec::new();
            for (i, im) in rd.images().iter().enumerate() {
                let mut get = |tag: String, b: &Blob, rd: &mut E57Reader<Dev>| {
                    let mut buf = Vec::new();
                    let ok = rd.blob(b, &mut buf).is_ok();
                    blobs.push(json!({"image": i, "tag": tag, "ok": ok, "b": jbytes(&buf)}));
                };
                if let Some(v) = &im.visual_reference {
                    get(format!("preview.{}", format!("{:?}", v.blob.format).to_lowercase()), &v.blob.data, &mut rd);
                    if let Some(m) = &v.mask {
                        get("preview_mask.png".into(), m, &mut rd);
                    }
                }
                let (pb, pm, name) = match &im.projection {
                    Some(Projection::Pinhole(p)) => (Some(&p.blob), &p.mask, "pinhole"),
                    Some(Projection::Spherical(p)) => (Some(&p.blob), &p.mask, "spherical"),
                    Some(Projection::Cylindrical(p)) => (Some(&p.blob), &p.mask, "cylindrical"),
                    None => (None, &None, ""),
                };
                if let Some(b) = pb {
                    get(format!("{name}.{}", format!("{:?}", b.format).to_lowercase()), &b.data, &mut rd);
                    if let Some(m) = pm {
                        get(format!("{name}_mask.png"), m, &mut rd);
                    }
                }
            }
            res["blobs"] = Value::Array(blobs);
            let mut pcs = Vec::new();
            for pc in rd.pointclouds() {
                let mut pts = Vec::new();
                let mut ok = true;
                if let Ok(it) = rd.pointcloud_raw(&pc) {
                    for p in it {
                        match p {
                            Ok(p) => pts.push(point_tr(&p)),
                            Err(_) => {
                                ok = false;
                                break;
                            }
                        }
                    }
                } else {
                    ok = false;
                }
                pcs.push(json!({"ok": ok, "pts": pts}));
            }
            res["pcs"] = Value::Array(pcs);
        }
        Err(_) => res["open"] = json!(false),
    }
    std::fs::write(out, res.to_string())
}
