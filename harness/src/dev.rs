//! Instrumented in-memory device: recording, chunking (short transfers),
//! fault injection at a chosen operation index, write-back durability.
//! It records; it never judges.
use std::cell::RefCell;
use std::io::{Error, ErrorKind, Read, Result, Seek, SeekFrom, Write};
use std::rc::Rc;

#[derive(Clone, Debug)]
pub enum DevOp {
    Write { pos: u64, data: Vec<u8> },
    Read { pos: u64, want: usize, got: usize },
    Seek { to: u64 },
    Flush,
}

#[derive(Default)]
pub struct DevState {
    pub data: Vec<u8>,
    pub pos: u64,
    /// every operation, in issue order (only when `record`)
    pub ops: Vec<DevOp>,
    pub record: bool,
    /// number of device operations issued so far (reads, writes, seeks, flushes)
    pub opcount: usize,
    /// inject an error at this operation index
    pub fault_at: Option<usize>,
    /// set once the fault fired
    pub faulted: bool,
    /// keep failing after the first fault (device stays broken)
    pub sticky_fault: bool,
    /// report the injected fault with ErrorKind::Interrupted (the retryable kind)
    pub fault_interrupted: bool,
    /// short-transfer schedule: every read/write moves at most sched[i % len] bytes
    pub chunks: Vec<usize>,
    pub chunk_i: usize,
    /// bytes read from the device (for resource accounting)
    pub bytes_read: u64,
    /// bytes that survived the last successful flush
    pub durable: Vec<u8>,
    pub track_durable: bool,
    /// number of API call currently in progress (set by the driver)
    pub in_call: usize,
    /// for each device write: the API call during which it was issued
    pub write_calls: Vec<usize>,
}

#[derive(Clone)]
pub struct Dev(pub Rc<RefCell<DevState>>);

impl Dev {
    pub fn new() -> Self {
        Dev(Rc::new(RefCell::new(DevState::default())))
    }
    pub fn from_bytes(b: Vec<u8>) -> Self {
        let d = Dev::new();
        d.0.borrow_mut().data = b;
        d
    }
    pub fn recording() -> Self {
        let d = Dev::new();
        d.0.borrow_mut().record = true;
        d
    }
    pub fn snapshot(&self) -> Vec<u8> {
        self.0.borrow().data.clone()
    }
    pub fn len(&self) -> usize {
        self.0.borrow().data.len()
    }
    pub fn opcount(&self) -> usize {
        self.0.borrow().opcount
    }
    pub fn set_fault(&self, at: Option<usize>) {
        let mut s = self.0.borrow_mut();
        s.fault_at = at;
        s.faulted = false;
    }
    pub fn faulted(&self) -> bool {
        self.0.borrow().faulted
    }
    pub fn set_chunks(&self, c: Vec<usize>) {
        self.0.borrow_mut().chunks = c;
    }
    pub fn set_call(&self, c: usize) {
        self.0.borrow_mut().in_call = c;
    }
    pub fn bytes_read(&self) -> u64 {
        self.0.borrow().bytes_read
    }
    pub fn reset_counters(&self) {
        let mut s = self.0.borrow_mut();
        s.bytes_read = 0;
    }
}

impl DevState {
    fn tick(&mut self) -> Result<()> {
        let i = self.opcount;
        self.opcount += 1;
        if self.fault_at == Some(i) || (self.sticky_fault && self.faulted) {
            self.faulted = true;
            let kind = if self.fault_interrupted { ErrorKind::Interrupted } else { ErrorKind::Other };
            return Err(Error::new(kind, "injected device fault"));
        }
        Ok(())
    }
    fn chunk(&mut self, want: usize) -> usize {
        if self.chunks.is_empty() || want == 0 {
            return want;
        }
        let c = self.chunks[self.chunk_i % self.chunks.len()].max(1);
        self.chunk_i += 1;
        want.min(c)
    }
}

impl Read for Dev {
    fn read(&mut self, buf: &mut [u8]) -> Result<usize> {
        let mut s = self.0.borrow_mut();
        s.tick()?;
        let pos = (s.pos as usize).min(s.data.len());
        let avail = s.data.len() - pos;
        let want = buf.len().min(avail);
        let n = s.chunk(want);
        buf[..n].copy_from_slice(&s.data[pos..pos + n]);
        s.pos = s.pos.saturating_add(n as u64);
        s.bytes_read += n as u64;
        if s.record {
            let w = buf.len();
            s.ops.push(DevOp::Read { pos: pos as u64, want: w, got: n });
        }
        Ok(n)
    }
}

impl Write for Dev {
    fn write(&mut self, buf: &[u8]) -> Result<usize> {
        let mut s = self.0.borrow_mut();
        s.tick()?;
        let n = s.chunk(buf.len());
        let pos = s.pos as usize;
        if s.data.len() < pos {
            s.data.resize(pos, 0);
        }
        let end = pos + n;
        if s.data.len() < end {
            s.data.resize(end, 0);
        }
        s.data[pos..end].copy_from_slice(&buf[..n]);
        s.pos = end as u64;
        if s.record {
            s.ops.push(DevOp::Write { pos: pos as u64, data: buf[..n].to_vec() });
            let c = s.in_call;
            s.write_calls.push(c);
        }
        Ok(n)
    }
    fn flush(&mut self) -> Result<()> {
        let mut s = self.0.borrow_mut();
        s.tick()?;
        if s.track_durable {
            s.durable = s.data.clone();
        }
        if s.record {
            s.ops.push(DevOp::Flush);
        }
        Ok(())
    }
}

impl Seek for Dev {
    fn seek(&mut self, from: SeekFrom) -> Result<u64> {
        let mut s = self.0.borrow_mut();
        s.tick()?;
        let np: i128 = match from {
            SeekFrom::Start(p) => p as i128,
            SeekFrom::End(o) => s.data.len() as i128 + o as i128,
            SeekFrom::Current(o) => s.pos as i128 + o as i128,
        };
        if np < 0 {
            return Err(Error::new(ErrorKind::InvalidInput, "seek before start"));
        }
        s.pos = np as u64;
        if s.record {
            let to = s.pos;
            s.ops.push(DevOp::Seek { to });
        }
        Ok(s.pos)
    }
}
