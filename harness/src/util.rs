//! Projection helpers (bytes, limbs, floats) and an independent bit-serial CRC-32C.
use serde_json::{json, Value};

/// CRC-32C from the reflected polynomial, bit by bit (independent of the crate and of any table).
pub fn crc32c_bitwise(data: &[u8]) -> u32 {
    let mut c: u32 = 0xFFFF_FFFF;
    for &b in data {
        c ^= b as u32;
        for _ in 0..8 {
            c = if c & 1 == 1 { (c >> 1) ^ 0x82F6_3B78 } else { c >> 1 };
        }
    }
    !c
}

pub const PAGE: usize = 1024;
pub const PAYLOAD: usize = 1020;

/// re-seal every page of an image (used when the harness builds or mutates files)
pub fn reseal(img: &mut [u8]) {
    let n = img.len() / PAGE;
    for k in 0..n {
        let c = crc32c_bitwise(&img[k * PAGE..k * PAGE + PAYLOAD]);
        img[k * PAGE + PAYLOAD..(k + 1) * PAGE].copy_from_slice(&c.to_be_bytes());
    }
}

pub fn page_valid(img: &[u8], k: usize) -> bool {
    let c = crc32c_bitwise(&img[k * PAGE..k * PAGE + PAYLOAD]);
    img[k * PAGE + PAYLOAD..(k + 1) * PAGE] == c.to_be_bytes()
}

/// Turn a logical byte stream into a paged image (zero padded, sealed with the independent CRC).
pub fn paginate(logical: &[u8]) -> Vec<u8> {
    let pages = (logical.len() + PAYLOAD - 1) / PAYLOAD;
    let mut img = vec![0u8; pages * PAGE];
    for k in 0..pages {
        let s = k * PAYLOAD;
        let e = (s + PAYLOAD).min(logical.len());
        img[k * PAGE..k * PAGE + (e - s)].copy_from_slice(&logical[s..e]);
    }
    reseal(&mut img);
    img
}

/// payload of a paged image (checksums stripped)
pub fn payload(img: &[u8]) -> Vec<u8> {
    let mut out = Vec::with_capacity(img.len());
    for k in 0..img.len() / PAGE {
        out.extend_from_slice(&img[k * PAGE..k * PAGE + PAYLOAD]);
    }
    out
}

pub fn log2phys(l: u64) -> u64 {
    l + 4 * (l / PAYLOAD as u64)
}

pub fn jbytes(b: &[u8]) -> Value {
    Value::Array(b.iter().map(|x| json!(*x)).collect())
}

pub fn limbs_u64(v: u64) -> Value {
    json!([v & 0xFFFF, (v >> 16) & 0xFFFF, (v >> 32) & 0xFFFF, (v >> 48) & 0xFFFF])
}
pub fn limbs_i64(v: i64) -> Value {
    limbs_u64(v as u64)
}
pub fn from_limbs(v: &Value) -> u64 {
    let a = v.as_array().expect("limbs");
    let mut r = 0u64;
    for (i, x) in a.iter().enumerate() {
        r |= (x.as_u64().expect("limb") & 0xFFFF) << (16 * i);
    }
    r
}

/// small deterministic PRNG (splitmix64) so runs depend only on VERIF_SEED
#[derive(Clone)]
pub struct Rng(pub u64);
impl Rng {
    pub fn new(seed: u64) -> Self {
        Rng(seed.wrapping_mul(0x9E37_79B9_7F4A_7C15).wrapping_add(0x1234_5678_9ABC_DEF1))
    }
    pub fn next(&mut self) -> u64 {
        self.0 = self.0.wrapping_add(0x9E37_79B9_7F4A_7C15);
        let mut z = self.0;
        z = (z ^ (z >> 30)).wrapping_mul(0xBF58_476D_1CE4_E5B9);
        z = (z ^ (z >> 27)).wrapping_mul(0x94D0_49BB_1331_11EB);
        z ^ (z >> 31)
    }
    pub fn below(&mut self, n: u64) -> u64 {
        if n == 0 {
            0
        } else {
            self.next() % n
        }
    }
    pub fn pick<'a, T>(&mut self, v: &'a [T]) -> &'a T {
        &v[self.below(v.len() as u64) as usize]
    }
    pub fn chance(&mut self, num: u64, den: u64) -> bool {
        self.below(den) < num
    }
}

/// run a closure, turning a panic into data
pub fn catch<T>(f: impl FnOnce() -> T) -> std::result::Result<T, String> {
    let r = std::panic::catch_unwind(std::panic::AssertUnwindSafe(f));
    match r {
        Ok(v) => Ok(v),
        Err(e) => {
            let msg = if let Some(s) = e.downcast_ref::<&str>() {
                s.to_string()
            } else if let Some(s) = e.downcast_ref::<String>() {
                s.clone()
            } else {
                "panic".to_string()
            };
            Err(msg)
        }
    }
}
