//! Replay of MC_Bits edges on the real ByteStreamWriteBuffer / ByteStreamReadBuffer (C12, B).
use crate::util::*;
use e57::verif::{ByteStreamReadBuffer, ByteStreamWriteBuffer};
use serde_json::{json, Value};
use std::io::{BufRead, BufReader, Write};

fn limbs_to_u64(v: &Value) -> u64 {
    from_limbs(v)
}

pub fn replay(edges: &str, out: &str) -> std::io::Result<()> {
    let f = BufReader::new(std::fs::File::open(edges)?);
    let mut o = std::fs::File::create(out)?;
    let (mut n, mut bad, mut panics) = (0u64, 0u64, 0u64);
    for line in f.lines() {
        let line = line?;
        if line.trim().is_empty() {
            continue;
        }
        let e: Value = serde_json::from_str(&line).expect("edge");
        n += 1;
        let h = e["h"].as_array().expect("h").clone();
        let side = e["side"].as_str().unwrap_or("w").to_string();
        let r = catch(|| {
            if side == "w" {
                let mut wb = ByteStreamWriteBuffer::new();
                let mut drained: Vec<u8> = Vec::new();
                let mut last = json!([]);
                for op in &h {
                    match op["op"].as_str().unwrap() {
                        "add" => {
                            let v = limbs_to_u64(&op["v"]);
                            wb.add_bits(&v.to_le_bytes(), op["n"].as_u64().unwrap() as usize);
                            last = json!([]);
                        }
                        "full" => {
                            let b = wb.get_full_bytes();
                            drained.extend_from_slice(&b);
                            last = jbytes(&b);
                        }
                        _ => {
                            let b = wb.get_all_bytes();
                            drained.extend_from_slice(&b);
                            last = jbytes(&b);
                        }
                    }
                }
                let (full, all) = (wb.full_bytes(), wb.all_bytes());
                let mut rest = wb.clone();
                let mut bytes = drained.clone();
                bytes.extend_from_slice(&rest.get_all_bytes());
                (last, json!({"full": full, "all": all, "bytes": jbytes(&bytes)}))
            } else {
                let mut rb = ByteStreamReadBuffer::new();
                let mut last = json!([]);
                for op in &h {
                    match op["op"].as_str().unwrap() {
                        "append" => {
                            let b: Vec<u8> = op["b"].as_array().unwrap().iter().map(|x| x.as_u64().unwrap() as u8).collect();
                            rb.append(&b);
                            last = json!([]);
                        }
                        _ => {
                            let nb = op["n"].as_u64().unwrap() as usize;
                            last = match rb.extract(nb) {
                                None => json!(["none"]),
                                Some(x) => {
                                    let m = if nb >= 64 { x } else { x & ((1u64 << nb) - 1) };
                                    json!(["some", limbs_u64(m)])
                                }
                            };
                        }
                    }
                }
                (last, json!({"avail": rb.available()}))
            }
        });
        match r {
            Ok((last, obs)) => {
                if last != e["res"] || obs != e["obs"] {
                    bad += 1;
                    writeln!(o, "{}", json!({"kind":"mismatch","edge":n,"case":e,"got_res":last,"got_obs":obs}))?;
                }
            }
            Err(m) => {
                panics += 1;
                writeln!(o, "{}", json!({"kind":"panic","edge":n,"case":e,"msg":m}))?;
            }
        }
    }
    writeln!(o, "{}", json!({"kind":"summary","edges":n,"mismatches":bad,"panics":panics}))?;
    Ok(())
}
