//! C05 / C13: the simple point iterator against the raw iterator. For every point cloud of a file and
//! every requested option vector one event is recorded: prototype, pose and limits as the reader
//! reports them, all raw points and all simple points, every number projected mechanically onto
//! exact grids (1/1024 for coordinates, quarter turns for angles, 1/4 for colour/intensity inputs,
//! 1/65536 for colour/intensity outputs). No expectation is computed here.
use crate::conv::*;
use crate::dev::Dev;
use crate::page::TraceOut;
use crate::prog::run_writer;
use crate::util::*;
use e57::*;
use serde_json::{json, Value};

const FIN: u64 = 0; // finite, on grid
const NAN: u64 = 1;
const PINF: u64 = 2;
const NINF: u64 = 3;
const BIG: u64 = 4; // finite but outside the 31-bit range of the grid
const OFF: u64 = 5; // finite, not on the grid (only for inputs and angles)

/// x * scale as a tagged grid numerator; `exact`: require the product to be (almost) an integer
fn grid(x: f64, scale: f64, exact: bool) -> Value {
    grid_tol(x, scale, exact, 0.0)
}

/// `tol`: how far from an integer the product may be and still count as on the grid (0 for the binary grids,
/// whose products are exact; a tiny subnormal is NOT the grid point 0)
fn grid_tol(x: f64, scale: f64, exact: bool, tol: f64) -> Value {
    if x.is_nan() {
        return json!([NAN, 0]);
    }
    if x.is_infinite() {
        return json!([if x > 0.0 { PINF } else { NINF }, 0]);
    }
    let y = x * scale;
    if y.abs() >= 1.0e9 {
        return json!([BIG, if y > 0.0 { 1 } else { -1 }]);
    }
    let r = y.round();
    if exact && (y - r).abs() > tol {
        return json!([OFF, 0]);
    }
    json!([FIN, r as i64])
}

fn quarter_turns(a: f64) -> Value {
    grid_tol(a / std::f64::consts::FRAC_PI_2, 1.0, true, 1e-6)
}

/// a raw value in all its projections: [q1024, quarter turns, q4, integer]
fn raw_tr(v: &RecordValue, dt: &RecordDataType) -> Value {
    let x = v.to_f64(dt).unwrap_or(f64::NAN);
    let int = match v {
        RecordValue::Integer(i) if i.abs() < (1 << 30) => json!([FIN, i]),
        RecordValue::Integer(i) => json!([BIG, if *i > 0 { 1 } else { -1 }]),
        _ => json!([OFF, 0]),
    };
    json!([grid(x, 1024.0, true), quarter_turns(x), grid(x, 4.0, true), int])
}

fn type_range(dt: &RecordDataType) -> (Value, Value, u64) {
    // declared range as real numbers on the 1/4 grid; kind; "undeclared" floats are marked BIG
    match dt {
        RecordDataType::Single { min, max } => (
            min.map(|m| grid(m as f64, 4.0, true)).unwrap_or(json!([BIG, -1])),
            max.map(|m| grid(m as f64, 4.0, true)).unwrap_or(json!([BIG, 1])),
            K_SINGLE,
        ),
        RecordDataType::Double { min, max } => (
            min.map(|m| grid(m, 4.0, true)).unwrap_or(json!([BIG, -1])),
            max.map(|m| grid(m, 4.0, true)).unwrap_or(json!([BIG, 1])),
            K_DOUBLE,
        ),
        RecordDataType::ScaledInteger { min, max, scale, offset } => (
            grid(*min as f64 * scale + offset, 4.0, true),
            grid(*max as f64 * scale + offset, 4.0, true),
            K_SINT,
        ),
        RecordDataType::Integer { min, max } => (grid(*min as f64, 4.0, true), grid(*max as f64, 4.0, true), K_INT),
    }
}

fn limit_q(v: &Option<RecordValue>) -> Value {
    match v {
        None => json!({"none":1}),
        Some(RecordValue::Single(f)) => json!({"some": [K_SINGLE, grid(*f as f64, 4.0, true)]}),
        Some(RecordValue::Double(f)) => json!({"some": [K_DOUBLE, grid(*f, 4.0, true)]}),
        Some(RecordValue::ScaledInteger(i)) => json!({"some": [K_SINT, grid(*i as f64, 4.0, true)]}),
        Some(RecordValue::Integer(i)) => json!({"some": [K_INT, grid(*i as f64, 4.0, true)]}),
    }
}

fn point_tr_simple(p: &Point) -> Value {
    let c = match &p.cartesian {
        CartesianCoordinate::Valid { x, y, z } => json!([0, grid(*x, 1024.0, false), grid(*y, 1024.0, false), grid(*z, 1024.0, false)]),
        CartesianCoordinate::Direction { x, y, z } => json!([1, grid(*x, 1024.0, false), grid(*y, 1024.0, false), grid(*z, 1024.0, false)]),
        CartesianCoordinate::Invalid => json!([2, [FIN, 0], [FIN, 0], [FIN, 0]]),
    };
    let s = match &p.spherical {
        SphericalCoordinate::Valid { range, azimuth, elevation } => json!([0, grid(*range, 1024.0, false), quarter_turns(*azimuth), quarter_turns(*elevation)]),
        SphericalCoordinate::Direction { azimuth, elevation } => json!([1, [FIN, 0], quarter_turns(*azimuth), quarter_turns(*elevation)]),
        SphericalCoordinate::Invalid => json!([2, [FIN, 0], [FIN, 0], [FIN, 0]]),
    };
    let col = match &p.color {
        Some(c) => json!({"some": [grid(c.red as f64, 65536.0, false), grid(c.green as f64, 65536.0, false), grid(c.blue as f64, 65536.0, false)]}),
        None => json!({"none":1}),
    };
    let int = match &p.intensity {
        Some(i) => json!({"some": grid(*i as f64, 65536.0, false)}),
        None => json!({"none":1}),
    };
    json!({"c": c, "s": s, "col": col, "int": int, "row": p.row, "column": p.column})
}

pub fn run(progs: &str, out: &str) -> std::io::Result<()> {
    let mut t = TraceOut::create(out)?;
    let mut null = TraceOut::create("/dev/null")?;
    for (pi, line) in std::fs::read_to_string(progs)?.lines().enumerate() {
        if line.trim().is_empty() {
            continue;
        }
        let prog: Value = serde_json::from_str(line).expect("program");
        // the file either comes from the real writer or from an image supplied as bytes
        let img: Vec<u8> = if let Some(b) = prog.get("image_bytes") {
            b.as_array().unwrap().iter().map(|x| x.as_u64().unwrap() as u8).collect()
        } else {
            let dev = Dev::new();
            let w = run_writer(&prog, &dev, &mut null);
            if !(w.all_ok && w.finalize_called) {
                t.ev(json!({"ev":"reset","run":pi,"name":prog["name"]}));
                t.ev(json!({"ev":"simple_nofile","name":prog["name"]}));
                continue;
            }
            dev.snapshot()
        };
        t.ev(json!({"ev":"reset","run":pi,"name":prog["name"]}));
        let mut rd = match catch(|| E57Reader::new(Dev::from_bytes(img.clone()))) {
            Ok(Ok(r)) => r,
            Ok(Err(_)) if prog["damaged"] == true => {
                // a deliberately damaged image may be refused as a whole (damage in the header or XML pages)
                t.ev(json!({"ev":"simple_refused","name":prog["name"]}));
                continue;
            }
            _ => {
                t.ev(json!({"ev":"simple_nofile","name":prog["name"]}));
                continue;
            }
        };
        let pcs = rd.pointclouds();
        let optsets: Vec<Vec<bool>> = match prog.get("opts") {
            Some(o) => o.as_array().unwrap().iter().map(|v| v.as_array().unwrap().iter().map(|b| b.as_bool().unwrap()).collect()).collect(),
            None => (0..64u32).map(|m| (0..6).map(|b| m & (1 << b) != 0).collect()).collect(),
        };
        for (i, pc) in pcs.iter().enumerate() {
            // raw points once per point cloud
            let raw = catch(|| -> std::result::Result<Vec<Value>, Vec<Value>> {
                let mut pts = Vec::new();
                let it = match rd.pointcloud_raw(pc) {
                    Ok(i) => i,
                    Err(_) => return Err(pts),
                };
                for p in it {
                    match p {
                        Ok(p) => pts.push(Value::Array(p.iter().zip(pc.prototype.iter()).map(|(v, r)| raw_tr(v, &r.data_type)).collect())),
                        Err(_) => return Err(pts),
                    }
                }
                Ok(pts)
            });
            let raw_v = match raw {
                Ok(Ok(p)) => json!({"ok": p}),
                Ok(Err(p)) => json!({"err": 1, "got": p}),
                Err(m) => json!({"panic": m}),
            };
            let proto: Vec<Value> = pc.prototype.iter().map(|r| {
                let (mn, mx, k) = type_range(&r.data_type);
                let (ns, name) = match &r.name {
                    RecordName::Unknown { namespace, name } => (json!({"some": namespace}), name.clone()),
                    o => (json!({"none":1}), std_name(o).to_string()),
                };
                json!({"ns": ns, "name": name, "k": k, "qmin": mn, "qmax": mx})
            }).collect();
            let pose = match prog["steps"].as_array().and_then(|s| s.iter().filter(|s| s["op"] == "pc").nth(i)).and_then(|s| s.get("pose_matrix")) {
                Some(m) if !m.is_null() => json!({"some": m}),
                _ => json!({"none":1}),
            };
            let il = opt(&pc.intensity_limits, |l| json!({"min": limit_q(&l.intensity_min), "max": limit_q(&l.intensity_max)}));
            let cl = opt(&pc.color_limits, |l| json!({"rmin": limit_q(&l.red_min), "rmax": limit_q(&l.red_max), "gmin": limit_q(&l.green_min),
                                                      "gmax": limit_q(&l.green_max), "bmin": limit_q(&l.blue_min), "bmax": limit_q(&l.blue_max)}));
            t.ev(json!({"ev":"simple_pc","pc":i + 1,"records":limbs_u64(pc.records),"proto":proto,"pose":pose,
                        "has_transform": if pc.transform.is_some() {1} else {0},
                        "ilim":il,"clim":cl,"raw":raw_v}));
            for o in &optsets {
                let res = catch(|| -> std::result::Result<Vec<Value>, Vec<Value>> {
                    let mut pts = Vec::new();
                    let mut it = match rd.pointcloud_simple(pc) {
                        Ok(i) => i,
                        Err(_) => return Err(pts),
                    };
                    it.apply_pose(o[0]);
                    it.spherical_to_cartesian(o[1]);
                    it.cartesian_to_spherical(o[2]);
                    it.intensity_to_color(o[3]);
                    it.normalize_intensity(o[4]);
                    it.normalize_color(o[5]);
                    for p in it {
                        match p {
                            Ok(p) => pts.push(point_tr_simple(&p)),
                            Err(e) => {
                                if std::env::var("E57H_DEBUG").is_ok() {
                                    eprintln!("simple iterator error: {e}");
                                }
                                return Err(pts);
                            }
                        }
                        if pts.len() > 2_000_000 {
                            return Err(pts);
                        }
                    }
                    Ok(pts)
                });
                let res_v = match res {
                    Ok(Ok(p)) => json!({"ok": p}),
                    Ok(Err(p)) => json!({"err": 1, "got": p}),
                    Err(m) => json!({"panic": m}),
                };
                t.ev(json!({"ev":"simple_iter","pc":i + 1,"opts": o.iter().map(|b| if *b {1} else {0}).collect::<Vec<_>>(),"res":res_v}));
            }
        }
    }
    use std::io::Write;
    t.f.flush()
}
