"""C15 — an interrupted write is never mistaken for a complete file."""
import json, os, random
import vlib, sweepcommon, progs
from vlib import log


def c15_programs(seed, tier):
    r = random.Random(seed)
    p = progs.small_protos()
    ps = [
        progs.prog("pc_blob", [progs.new(), progs.pc(p[0], 30, seed=seed), progs.blob(200, 1), progs.FIN]),
        progs.prog("straddle", [progs.new(), progs.blob(progs.filler_for(1008), 2), progs.blob(40, 3), progs.pc(p[1], 12, seed=seed + 1), progs.FIN]),
        progs.prog("two_pcs_image", [progs.new(), progs.pc(p[2], 100, seed=seed + 2), progs.image([progs.rep("visual", 300, mask=20)]),
                                     progs.pc(p[3], 25, seed=seed + 3, guid="b"), progs.FIN]),
        progs.prog("empty", [progs.new(), progs.FIN]),
        # the writer is dropped without the top-level finalize: nothing may ever be accepted
        progs.prog("dropped_after_pc", [progs.new(), progs.pc(p[0], 30, seed=seed), progs.blob(10, 4)]),
        progs.prog("dropped_inside_pc", [progs.new(), progs.pc(p[0], 30, seed=seed, end="drop")]),
        progs.prog("dropped_two", [progs.new(), progs.pc(p[1], 5, seed=seed), progs.pc(p[2], 5, seed=seed, guid="b"), progs.image([progs.rep("visual", 9)])]),
    ]
    # files without any binary section: the XML follows the header directly; its length is swept over every residue of the
    # page payload (stride 3 < the 4-byte checksum) with boundary cuts only
    for k in (range(0, 1024) if tier == "thorough" else range(0, 1024, 3)):
        ps.append(progs.prog(f"meta_only{k}", [progs.new("g"), {"op": "coord", "v": "c" * k}, progs.FIN], cuts="coarse"))
    # a finalized file is changed and finalized again: at every crash point the device holds the first or the second
    # version, never a mixture; the blob slides the changed text over the page boundaries, the long text spans pages
    a, b = "EPSG:32632+5783", "EPSG:25832+7837"
    for k in (range(0, 1020, 2) if tier == "thorough" else range(0, 1020, 7)):
        ps.append(progs.prog(f"refinalize{k}", [progs.new("g"), progs.blob(k, 1), {"op": "coord", "v": a}, progs.FIN, {"op": "coord", "v": b}, progs.FIN], cuts="coarse"))
    ps.append(progs.prog("refinalize_long", [progs.new("g"), progs.pc(p[0], 5, seed=seed), {"op": "coord", "v": "A" * 2500}, progs.FIN, {"op": "coord", "v": "B" * 2500}, progs.FIN]))
    ps.append(progs.prog("refinalize_grow", [progs.new("g"), progs.blob(30, 1), progs.FIN, progs.pc(p[0], 5, seed=seed), progs.FIN, {"op": "coord", "v": "x"}, progs.FIN]))
    # every kind of call after a finalize, then finalize again: nothing written earlier may be overwritten
    ps.append(progs.prog("image_after_finalize", [progs.new("g"), progs.image([progs.rep("visual", 300, salt=1, mask=90)], guid="one"), progs.pc(p[0], 12, seed=seed), progs.FIN,
                                                  progs.image([progs.rep("visual", 650, salt=7), progs.rep("pinhole", 300, salt=9, focal=1.0, pw=1.0, ph=1.0, px=1.0, py=1.0)], guid="two"), progs.FIN]))
    ps.append(progs.prog("all_after_finalize", [progs.new("g"), progs.blob(100, 1), progs.FIN, progs.image([progs.rep("visual", 200, salt=2)], guid="i"), progs.FIN,
                                                progs.blob(300, 3), progs.FIN, progs.pc(p[1], 7, seed=seed), progs.FIN]))
    # finalize with a caller's XML transformer: the transformed XML is the only one that may ever be accepted
    ps.append(progs.prog("custom_finalize", [progs.new("g"), {"op": "coord", "v": "BEFORE-TRANSFORM"}, progs.pc(p[0], 20, seed=seed),
                                             {"op": "finalize", "xml_replace": [["BEFORE-TRANSFORM", "AFTER-TRANSFORM-AND-LONGER"]]}]))
    ps.append(progs.prog("custom_finalize_ext", [progs.new("g"), {"op": "ext", "ns": "fx", "url": "urn:fx"}, progs.blob(980, 1),
                                                 {"op": "finalize", "xml_replace": [["</e57Root>", "<fx:note type=\"String\"><![CDATA[added by the caller]]></fx:note>\n</e57Root>"]]}]))
    n_extra = 40 if tier == "thorough" else 3
    for i in range(n_extra):
        steps = [progs.new(f"g{i}")]
        for j in range(r.randint(1, 3)):
            k = r.choice(["pc", "blob", "image"])
            if k == "pc":
                steps.append(progs.pc(r.choice(p), r.choice([0, 1, 9, 60, 300]), seed=r.randint(1, 10**6), guid=f"pc{j}"))
            elif k == "blob":
                steps.append(progs.blob(r.choice([0, 5, 924, 940, 956, 957, 972, 1020, 1021]), salt=j))
            else:
                steps.append(progs.image([progs.rep("visual", r.choice([1, 500]), mask=r.choice([None, 7]))], guid=f"im{j}"))
        if r.random() < 0.8:
            steps.append(progs.FIN)
        ps.append(progs.prog(f"rand{i}", steps))
    return ps


def run(tier, seed, args):
    v = vlib.Verdict("C15", tier, seed, "fault_enumeration")
    wd = vlib.workdir("C15")
    exe = vlib.build_harness()
    deep = tier == "thorough"
    # (A) design-level model of the commit protocol: holds for the protocol as built (and for a harmless reordering),
    # is violated by the two protocol changes that the seeded changes C15-A/B implement (model self-test)
    mc = []
    for order, expect_ok in (("asbuilt", True), ("early", True), ("header_twice", False), ("finalize_in_drop", False)):
        for nd, nx in ((0, 1), (2, 2), (3, 1)) if deep else ((2, 2),):
            cfg = os.path.join(wd, f"crash_{order}_{nd}_{nx}.cfg")
            vlib.write_cfg(cfg, spec="Spec", constants={"NData": nd, "NXml": nx, "Order": f'"{order}"'},
                           invariants=["AcceptedOnlyIfComplete", "RejectedBeforeFinalize"])
            r = vlib.tlc_mc("CrashSpec", cfg, os.path.join(wd, f"crash_{order}_{nd}_{nx}.out"), workers=2, timeout=300)
            ok = r["violated"] is None
            mc.append({"order": order, "NData": nd, "NXml": nx, "holds": ok, "states": r["distinct"]})
            if ok != expect_ok:
                raise vlib.ToolError(f"CrashSpec: protocol '{order}' expected {'to hold' if expect_ok else 'to be violated'} but TLC says otherwise")
            v.add(states=r["distinct"], transitions=r["generated"])
    # re-finalizing a finalized file: never a mixture of the two versions (RefinalizeSpec; "in_place" is seeded change C15-D)
    for mode, nd, nx, expect_ok in (("append", 0, 1, True), ("append", 2, 3, True), ("in_place_header_first", 2, 3, True), ("in_place", 2, 3, False)):
        cfg = os.path.join(wd, f"refin_{mode}_{nd}_{nx}.cfg")
        vlib.write_cfg(cfg, spec="Spec", constants={"NData": nd, "NXml": nx, "Mode": f'"{mode}"'}, invariants=["NeverMixed"])
        r = vlib.tlc_mc("RefinalizeSpec", cfg, os.path.join(wd, f"refin_{mode}_{nd}_{nx}.out"), workers=2, timeout=300)
        ok = r["violated"] is None
        mc.append({"model": "RefinalizeSpec", "mode": mode, "NData": nd, "NXml": nx, "holds": ok, "states": r["distinct"]})
        if ok != expect_ok:
            raise vlib.ToolError(f"RefinalizeSpec: mode '{mode}' expected {'to hold' if expect_ok else 'to be violated'} but TLC says otherwise")
        v.add(states=r["distinct"], transitions=r["generated"])
    v.cov["crash_model"] = mc
    log(f"[C15] (A) CrashSpec: invariant holds for the protocol as built, violated for the two seeded protocol variants ({len(mc)} TLC runs)")
    ps = c15_programs(seed, tier)
    pp = os.path.join(wd, "progs.ndjson")
    with open(pp, "w") as f:
        for p in ps:
            f.write(json.dumps(p) + "\n")
    tp = os.path.join(wd, "c15.trace.ndjson")
    vlib.harness(exe, ["c15-run", "--progs", pp, "--out", tp] + (["--allcuts", "1"] if deep else []))
    r, lines = sweepcommon.validate_sweep(v, wd, "Trace_C15", tp, ("C15",), "c15", lambda e: f"w{e.get('w')}cut{e.get('cut')}", ctx=ps)
    evs = [json.loads(x) for x in lines if '"c15_img"' in x]
    acc = sum(1 for e in evs if e["accepted"] == 1)
    after = sum(1 for e in evs if e["fin_started"] == 1)
    log(f"[C15] {len(ps)} programs: {len(evs)} crash images ({after} from after the start of finalize), {acc} accepted by the reader")
    v.sample(evs[0]); v.sample(evs[len(evs) // 2]); v.sample([e for e in evs if e["accepted"] == 1][0] if acc else evs[-1])
    os.remove(tp)
    v.add(exhaustive=True, evaluations=len(evs), distinct_nontrivial=after, traces_validated_against_impl=len(ps),
          rule="one case = one device image: a prefix of the recorded write sequence plus a torn cut of the next write "
               "(quick: boundary cuts, every cut of the header patch; thorough: every cut of every write); distinct non-trivial = images from after finalize started")
    v.assumptions += ["writes reach the device in issue order (stated in the property)"]
    return v.finish()
