"""C14 — bounds and default limits written by the writer are exact."""
import vlib, filecommon, progs


def run(tier, seed, args):
    v = vlib.Verdict("C14", tier, seed, "model_checking")
    wd = vlib.workdir("C14")
    exe = vlib.build_harness()
    if args.replay:
        filecommon.validate_runs(v, wd, filecommon.split_runs(args.replay), "replay", focus=("C14",))
        return v.finish()
    ps = progs.c14_programs(seed, tier)
    lim = [p for p in progs.c04_programs(seed, tier) if p["name"].startswith(("ilim", "clim"))]
    filecommon.run_programs(v, wd, exe, ps + lim, "c14", focus=("C14",), jobs=6, batch_events=300)
    v.add(states=v.cov.get("trace_events", 0), transitions=v.cov.get("trace_events", 0),
          rule="one case = one program: attribute-group subsets x coordinate data type (single, double, scaled integer with dyadic scale/offset incl. negative scale) x point sequence "
               "(empty, single, constant, monotone, sign-mixed with +-0, extremes; distinct extremes per axis at distinct indices) and limit defaults/overrides; TLC computes exact minima/maxima "
               "with an IEEE-754 total order on bit patterns and compares with the bounds read back",
          evaluations=v.cov.get("programs", 0), distinct_nontrivial=v.cov.get("traces_validated_against_impl", 0))
    v.assumptions += ["real values of points are mechanical conversions recorded by the harness (exact for the dyadic scales/offsets used)", "non-NaN point sequences"]
    return v.finish()
