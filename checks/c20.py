"""C20 — bundled tools preserve data end to end."""
import json, os, random, shutil, struct, subprocess
import vlib, sweepcommon, progs
from vlib import log

TOOLS = ["e57-from-xyz", "e57-to-xyz", "e57-check-crc", "e57-extract-xml", "e57-unpack"]


def build_tools():
    tdir = os.path.join(vlib.HARNESS, "target_tools")
    cmd = "cargo build --release --offline --target-dir " + tdir + " " + " ".join("-p " + t for t in TOOLS)
    rc, out = vlib.sh(cmd, cwd="/repo", timeout=1800)
    if rc != 0:
        raise vlib.ToolError("building the tools failed\n" + out[-3000:])
    return {t: os.path.join(tdir, "release", t) for t in TOOLS}


def f32bits(x):
    return struct.unpack("<I", struct.pack("<f", x))[0]


def f32_from_bits(b):
    return struct.unpack("<f", struct.pack("<I", b))[0]


def nz(b):
    """numerical identity: -0.0 and +0.0 are the same number"""
    return 0 if b == 0x80000000 else b


def fmt_f32(b):
    x = f32_from_bits(b)
    return repr(x) if x == 0 else "%.9g" % x


def run_tool(exe, args, cwd=None, timeout=300):
    p = subprocess.run([exe] + args, cwd=cwd, stdout=subprocess.PIPE, stderr=subprocess.PIPE, timeout=timeout)
    return p.returncode, p.stdout


def xyz_cases(seed, tier):
    r = random.Random(seed)
    special = [0x00000000, 0x80000000, 0x00000001, 0x807FFFFF, 0x00800000, 0x7F7FFFFF, 0xFF7FFFFF, 0x3F800000, 0xBF800000, 0x3DCCCCCD,
               0x4B800000, 0xCB800001, 0x5F000000, 0xDF000000, 0x5F7FFFFF, 0x60000000, 0x7E967699, 0x3A83126F, 0x42F6E979, 0xC2F6E979]
    cases = []
    # (1) all 8-bit colours, coordinates from the special list
    lines = []
    for c in range(256):
        xyz = [special[(c + j) % len(special)] for j in range(3)]
        lines.append({"cols": 6, "xyz": xyz, "rgb": [c, (c * 7) % 256, 255 - c], "extra": []})
    cases.append(("all_colours", lines))
    # (2) line shapes: short lines, empty lines, extra columns, interleaved
    lines = []
    for i in range(60 if tier == "quick" else 400):
        shape = i % 6
        xyz = [r.choice(special) if r.random() < 0.3 else f32bits((r.random() - 0.5) * 10 ** r.randint(-3, 6)) for _ in range(3)]
        rgb = [r.randrange(256) for _ in range(3)]
        if shape == 0:
            lines.append({"cols": 6, "xyz": xyz, "rgb": rgb, "extra": []})
        elif shape == 1:
            lines.append({"cols": 8, "xyz": xyz, "rgb": rgb, "extra": ["17", "label"]})
        elif shape == 2:
            lines.append({"cols": 3, "xyz": xyz, "rgb": [], "extra": []})
        elif shape == 3:
            lines.append({"cols": 0, "xyz": [], "rgb": [], "extra": []})
        elif shape == 4:
            lines.append({"cols": 5, "xyz": xyz, "rgb": rgb[:2], "extra": []})
        else:
            lines.append({"cols": 7, "xyz": xyz, "rgb": rgb, "extra": ["0.5"]})
    cases.append(("line_shapes", lines))
    # decimals with many digits next to the middle between two floats: one correct rounding of the decimal text
    lines = []
    for k, b in enumerate([0x3F800000, 0x3F800001, 0x40490FDA, 0x00800000, 0x4B7FFFFE, 0x3DCCCCCC, 0x7F7FFFFE, 0x00000001, 0x3EAAAAAA, 0x41200000]):
        for up in (True, False):
            (tx, bx), (ty, by), (tz, bz) = near_midpoint_text(b, up), near_midpoint_text(b ^ 0x00000010, not up), near_midpoint_text((b + 7 * k) & 0x7F7FFFF0, up)
            lines.append({"cols": 6, "xyz": [bx, by, bz], "text": [tx, ty, tz], "rgb": [k, 2 * k, 3 * k], "extra": []})
    cases.append(("near_midpoints", lines))
    cases.append(("single_point", [{"cols": 6, "xyz": [0x3F800000, 0x40000000, 0x40400000], "rgb": [1, 2, 3], "extra": []}]))
    cases.append(("short_then_full", [{"cols": 3, "xyz": [0x40E00000, 0x41000000, 0x41100000], "rgb": [], "extra": []},
                                      {"cols": 6, "xyz": [0x41200000, 0x41300000, 0x41400000], "rgb": [70, 80, 90], "extra": []}]))
    cases.append(("no_points", [{"cols": 2, "xyz": [0x3F800000, 0x40000000], "rgb": [], "extra": []}]))
    # (3) many points (more than one data packet)
    n = 9000 if tier == "quick" else 40000
    cases.append(("many", [{"cols": 6, "xyz": [f32bits(i * 0.125), f32bits(-i * 0.5), f32bits(1e-3 * i)], "rgb": [i % 256, (i // 256) % 256, (i * 3) % 256], "extra": []} for i in range(n)]))
    if tier == "thorough":
        # every finite 32-bit pattern is a legal coordinate: random patterns over all exponents
        def rb():
            while True:
                b = r.getrandbits(32)
                if (b >> 23) & 0xFF != 0xFF:
                    return b
        cases.append(("random_bits", [{"cols": 6, "xyz": [rb(), rb(), rb()], "rgb": [r.randrange(256) for _ in range(3)], "extra": []} for _ in range(20000)]))
    return cases


def near_midpoint_text(b, up):
    """a long decimal just above (up) or below the exact middle between the float with bits b and its successor, and the
    bits of the float it must be parsed to (single correct rounding of the decimal)"""
    from fractions import Fraction
    from decimal import Decimal, getcontext
    getcontext().prec = 80
    lo, hi = Fraction(f32_from_bits(b)), Fraction(f32_from_bits(b + 1))
    mid = (lo + hi) / 2
    d = Decimal(mid.numerator) / Decimal(mid.denominator)
    eps = abs(d) * Decimal(10) ** -17
    return format(d + eps if up else d - eps, ".30g"), (b + 1 if up else b)


def line_text(ln):
    if "text" in ln:
        return " ".join(ln["text"] + [str(c) for c in ln["rgb"]] + ln["extra"])
    parts = [fmt_f32(b) for b in ln["xyz"]] + [str(c) for c in ln["rgb"]] + ln["extra"]
    return " ".join(parts)


def parse_xyz_out(path):
    out = []
    for raw in open(path).read().splitlines():
        if not raw.strip():
            continue
        p = raw.split(" ")
        xyz = []
        for t in p[:3]:
            v = float(t)
            b = f32bits(v) if abs(v) <= 3.5e38 else 0x7F800000
            # -1 marks a printed coordinate that is not exactly an f32 value
            xyz.append(b if (f32_from_bits(b) == v) else -1)
        rgb = [int(t) for t in p[3:6]]
        out.append({"xyz": xyz, "rgb": rgb})
    return out


def run(tier, seed, args):
    v = vlib.Verdict("C20", tier, seed, "exploration")
    wd = vlib.workdir("C20")
    exe = vlib.build_harness()
    tools = build_tools()
    tp = os.path.join(wd, "tools.trace.ndjson")
    t = open(tp, "w")
    ev = lambda e: t.write(json.dumps(e) + "\n")
    ev({"ev": "reset", "name": "xyz"})
    ncases = 0
    # ---- XYZ -> E57 -> XYZ
    for name, lines in xyz_cases(seed, tier):
        d = os.path.join(wd, "xyz_" + name); os.makedirs(d, exist_ok=True)
        src = os.path.join(d, "in.xyz")
        open(src, "w").write("\n".join(line_text(l) for l in lines) + "\n")
        rc1, _ = run_tool(tools["e57-from-xyz"], [src])
        rc2, out = (1, b"")
        outpts = []
        if rc1 == 0:
            rc2, _ = run_tool(tools["e57-to-xyz"], [src + ".e57"])
            if rc2 == 0:
                outpts = parse_xyz_out(src + ".e57.xyz")
        ev({"ev": "t_xyz", "name": name, "from_exit": rc1, "to_exit": rc2,
            "lines": [{"cols": l["cols"], "xyz": [nz(b) for b in l["xyz"]], "rgb": l["rgb"]} for l in lines],
            "out": [{"xyz": [nz(b) for b in o["xyz"]], "rgb": o["rgb"]} for o in outpts]})
        ncases += 1
        v.sample({"xyz_case": name, "first_lines": [line_text(l) for l in lines[:3]], "points_out": len(outpts)})
    # ---- E57 files from the writer generators for the other tools
    ev({"ev": "reset", "name": "files"})
    ps = [p for p in progs.c06_programs(seed, "quick") if p["name"].startswith("image_")][:4] + progs.c01_programs(seed, "quick")[:6] + \
         [p for p in progs.c04_programs(seed, "quick") if p["name"] in ("all_set", "string7", "string11")]
    # XML sections in other line shapes than the writer's: everything behind the declaration on one long line, no final line feed
    allset = [p for p in progs.c04_programs(seed, "quick") if p["name"] == "all_set"][0]
    for k, sep in enumerate((" ", "")):
        st = [dict(x) for x in allset["steps"]]
        st[-1] = {"op": "finalize", "xml_replace": [["\u0000ALL-LINE-FEEDS-BUT-THE-FIRST", sep]]}
        ps.append(dict(allset, name=f"xml_one_long_line_{k}", steps=st))
    pp = os.path.join(wd, "files.progs.ndjson")
    with open(pp, "w") as f:
        for p in ps:
            f.write(json.dumps(dict(p, read=[])) + "\n")
    tr = os.path.join(wd, "files.trace")
    vlib.harness(exe, ["e57-run", "--progs", pp, "--out", tr])
    files = []
    for line in open(tr):
        if '"ev":"final"' in line:
            e = json.loads(line)
            fp = os.path.join(wd, f"file{len(files)}.e57")
            open(fp, "wb").write(bytes(e["bytes"]))
            files.append(fp)
    os.remove(tr)
    r = random.Random(seed)
    # check-crc in directory mode (recursive): the exit status is that of ALL files, wherever the damaged one is visited
    import shutil
    for rnd in range(2 if tier == "quick" else 6):
        dd = os.path.join(wd, f"crcdir{rnd}")
        shutil.rmtree(dd, ignore_errors=True); os.makedirs(os.path.join(dd, "sub", "deeper"))
        members = []
        for i, fp in enumerate(files[:5] if rnd % 2 == 0 else files[-4:]):
            rel = [f"{chr(97 + i)}.e57", f"sub/{chr(109 + i)}.E57", f"sub/deeper/{chr(120 - i)}.e57"][(i + rnd) % 3]
            shutil.copy(fp, os.path.join(dd, rel)); members.append(rel)
        open(os.path.join(dd, "notes.txt"), "w").write("not an e57 file")
        rc, _ = run_tool(tools["e57-check-crc"], [dd])
        ev({"ev": "t_crc", "file": f"dir{rnd}", "dir": 1, "altered": 0, "exit": rc})
        for rel in members:
            orig = open(os.path.join(dd, rel), "rb").read()
            b = bytearray(orig); b[r.randrange(len(b))] ^= 1 << r.randrange(8)
            open(os.path.join(dd, rel), "wb").write(bytes(b))
            rc, _ = run_tool(tools["e57-check-crc"], [dd])
            ev({"ev": "t_crc", "file": f"dir{rnd}:{rel}", "dir": 1, "altered": 1, "exit": rc})
            open(os.path.join(dd, rel), "wb").write(orig)
            ncases += 1
        shutil.rmtree(dd, ignore_errors=True)
    for fp in files:
        img = open(fp, "rb").read()
        dump = fp + ".lib.json"
        vlib.harness(exe, ["lib-dump", "--file", fp, "--out", dump])
        lib = json.load(open(dump))
        # check-crc: intact and with one altered byte in a random page (every page for small files in thorough)
        rc, _ = run_tool(tools["e57-check-crc"], [fp])
        ev({"ev": "t_crc", "file": os.path.basename(fp), "altered": 0, "exit": rc})
        pages = len(img) // 1024
        for k in (range(pages) if tier == "thorough" else sorted(set([0, pages - 1, r.randrange(pages)]))):
            b = bytearray(img); b[k * 1024 + r.randrange(1024)] ^= 1 << r.randrange(8)
            ap = fp + ".alt"
            open(ap, "wb").write(bytes(b))
            rc, _ = run_tool(tools["e57-check-crc"], [ap])
            ev({"ev": "t_crc", "file": os.path.basename(fp), "altered": 1, "page": k, "exit": rc})
            ncases += 1
        # extract-xml vs raw_xml
        rc, out = run_tool(tools["e57-extract-xml"], [fp])
        same = 1 if ("ok" in lib["raw_xml"] and bytes(lib["raw_xml"]["ok"]) == out) else 0
        ev({"ev": "t_xml", "file": os.path.basename(fp), "exit": rc, "same": same})
        # unpack vs xml(), blob(), pointcloud_raw()
        rc, _ = run_tool(tools["e57-unpack"], [fp])
        ud = fp + "_unpacked"
        xml_same = 1 if os.path.exists(os.path.join(ud, "metadata.xml")) and open(os.path.join(ud, "metadata.xml"), "rb").read() == bytes(lib.get("xml", [])) else 0
        bsame = 0
        for b in lib.get("blobs", []):
            p = os.path.join(ud, f"image_{b['image']}_{b['tag']}")
            if b["ok"] and os.path.exists(p) and open(p, "rb").read() == bytes(b["b"]):
                bsame += 1
        psame = 0
        for i, pc in enumerate(lib.get("pcs", [])):
            p = os.path.join(ud, f"pc_{i}.csv")
            if not (pc["ok"] and os.path.exists(p)):
                continue
            rows = open(p).read().split("\n")[1:]
            rows = [x for x in rows if x != ""]
            ok = len(rows) == len(pc["pts"])
            for row, pt in zip(rows, pc["pts"]):
                cells = row.split(";")
                if len(cells) != len(pt):
                    ok = False; break
                for cell, val in zip(cells, pt):
                    kind, bits = val[0], val[1] | (val[2] << 16) | (val[3] << 32) | (val[4] << 48)
                    if kind == 0:
                        x = float(cell); good = (x != x and (bits & 0x7FFFFFFF) > 0x7F800000) or f32bits(x) == bits
                    elif kind == 1:
                        x = float(cell); good = (x != x) or struct.unpack("<Q", struct.pack("<d", x))[0] == bits
                    else:
                        good = (int(cell) & ((1 << 64) - 1)) == bits
                    if not good:
                        ok = False; break
                if not ok:
                    break
            psame += 1 if ok else 0
        ev({"ev": "t_unpack", "file": os.path.basename(fp), "exit": rc, "xml_same": xml_same, "blobs_expected": len(lib.get("blobs", [])), "blobs_same": bsame,
            "points_expected": len(lib.get("pcs", [])), "points_same": psame})
        ncases += 2
        shutil.rmtree(ud, ignore_errors=True)
    t.close()
    r2, lines = sweepcommon.validate_sweep(v, wd, "Trace_Tools", tp, ("C20",), "c20", lambda e: e.get("name", e.get("file", "?")) + ":" + e["ev"], ctx=None, jobs=2)
    log(f"[C20] {ncases} tool runs validated ({len(files)} E57 files, {len(xyz_cases(seed, tier))} XYZ files)")
    v.add(evaluations=r2["events"], distinct_nontrivial=ncases, traces_validated_against_impl=ncases,
          rule="one case = one tool run: XYZ->E57->XYZ on files covering all 8-bit colours, f32 extremes/subnormals/-0, short/empty/extra-column lines, several packets; check-crc on intact and altered files; "
               "extract-xml and unpack outputs compared with what the library returns (raw_xml, xml, blob, pointcloud_raw)")
    v.assumptions += ["columns separated by single spaces (the documented input format)", "tool outputs are parsed back numerically by the orchestrator"]
    for f in os.listdir(wd):
        if f.startswith("file") or f.startswith("xyz_"):
            p = os.path.join(wd, f)
            shutil.rmtree(p) if os.path.isdir(p) else os.remove(p)
    return v.finish()
