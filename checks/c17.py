"""C17 — read operations are independent of what was read before."""
import json, os, collections
import vlib, pagecommon, progs
from vlib import log


def c17_files(seed):
    p = progs.small_protos()
    return [
        # more than 64 pages between related sections: per-page state indexed modulo a word size would alias
        progs.prog("wide", [progs.new(), progs.blob(66000, 5), progs.pc(p[0], 40, seed=seed + 5), progs.blob(66200, 6), progs.pc(p[4], 30, seed=seed + 6, guid="b"), progs.FIN], max_depth=2),
        # two point clouds with the same GUID (and a third without a distinguishing one): nothing may be keyed by it
        progs.prog("same_guid", [progs.new(), progs.pc(p[0], 25, seed=seed + 7, guid="same"), progs.blob(40, 8), progs.pc(p[0], 25, seed=seed + 8, guid="same"), progs.pc(p[1], 9, seed=seed + 9, guid=""), progs.FIN], max_depth=2),
        progs.prog("two", [progs.new(), progs.blob(300, 1), progs.pc(p[0], 120, seed=seed), progs.blob(1500, 2), progs.pc(p[4], 50, seed=seed + 1, guid="b"), progs.FIN]),
        progs.prog("three", [progs.new(), progs.pc(p[2], 400, seed=seed + 2), progs.blob(17, 3), progs.pc(p[1], 30, seed=seed + 3, guid="b"),
                             progs.image([progs.rep("visual", 900, mask=50)]), progs.blob(1003, 4), progs.FIN]),
    ]


def run(tier, seed, args):
    v = vlib.Verdict("C17", tier, seed, "model_checking")
    wd = vlib.workdir("C17")
    exe = vlib.build_harness()
    deep = tier == "thorough"
    # (A)+(B) page level: the shared state between operations is the page reader; all histories incl. failures
    bad, n = pagecommon.mc_and_replay(v, wd, exe, "MC_PageR", {"MaxDepth": 4 if deep else 3, "MaxCorrupt": 2 if deep else 1, "Merge": True},
                                      ["MC_ReadCache"], ["PropFresh", "PropRead"], "page-replay-r", "mcr")
    pagecommon.confirm_r(v, wd, exe, bad)
    # (C) file level: every operation sequence up to the depth on one reader vs fresh readers
    files = c17_files(seed)
    pp = os.path.join(wd, "files.ndjson")
    with open(pp, "w") as f:
        for p in (files if deep else files[:3]):
            f.write(json.dumps(p) + "\n")
    tp = os.path.join(wd, "c17.trace.ndjson")
    vlib.harness(exe, ["c17-run", "--progs", pp, "--depth", 3 if deep else 2, "--out", tp])
    # transient device faults between operations (one failing device operation, short transfers): appended to the same trace
    tp2 = os.path.join(wd, "c17t.trace.ndjson")
    pp2 = os.path.join(wd, "files_t.ndjson")
    with open(pp2, "w") as f:
        for p in files[2:3] + (files[3:4] if deep else []):
            f.write(json.dumps(p) + "\n")
    vlib.harness(exe, ["c17-transient", "--progs", pp2, "--out", tp2])
    open(tp, "a").write(open(tp2).read()); os.remove(tp2)
    r = vlib.tlc_trace("Trace_C17", tp, os.path.join(wd, "c17.tlc.out"), focus=("C17",), cont=True, timeout=3000)
    if not r["accepted"]:
        raise vlib.ToolError(f"Trace_C17 did not consume the trace: {r}")
    lines = open(tp).read().splitlines()
    seqs = [json.loads(x) for x in lines if '"ev":"c17"' in x]
    with_fail = sum(1 for e in seqs if "err" in e["fresh"])
    v.add(traces_validated_against_impl=len(seqs), trace_events=r["events"], sequences_with_failing_operations=with_fail)
    groups = collections.OrderedDict()
    for at, t in r["viol"]:
        e = json.loads(lines[at - 1])
        bad_i = [i for i, c in enumerate(e["classes"]) if c != "same"][0]
        groups.setdefault((t, e["variant"], e["seq"][bad_i]), []).append(e)
    for (t, variant, op), evs in groups.items():
        rp = os.path.join(wd, "replay", f"c17_{variant}_{op}.json")
        json.dump({"file_programs": files, "cases": evs[:3]}, open(rp, "w"))
        v.violation(f"Trace_C17:{t}@{variant}:{op}", rp, f"({len(evs)} sequences), e.g. {evs[0]['seq']}")
    v.sample({"c17_sequence": seqs[len(seqs) // 3]}); v.sample({"c17_sequence": seqs[-1]})
    log(f"[C17] file level: {len(seqs)} operation sequences ({with_fail} contain an operation that fails on a fresh reader), {len(r['viol'])} rejected")
    os.remove(tp)
    v.add(exhaustive=True, rule="page level: every edge of the bounded reader model incl. altered pages, replayed on the real PagedReader with per-page cache probes; "
          "file level: every sequence (depth 2 quick / 3 thorough) over {xml, report, raw/simple iteration complete and partly consumed, every blob} on pristine, page-damaged and section-damaged variants of real files",
          evaluations=v.cov.get("edges_replayed", 0) + len(seqs), distinct_nontrivial=len(seqs))
    v.assumptions += ["TLC, PageSpec, harness recording (comparison class = byte equality of canonical result text with the fresh reader's)"]
    return v.finish()
