"""C12 — bit-packed integers: exact width, bit order and decode at any alignment."""
import vlib, filecommon, progs


def run(tier, seed, args):
    v = vlib.Verdict("C12", tier, seed, "model_checking")
    wd = vlib.workdir("C12")
    exe = vlib.build_harness()
    if args.replay:
        filecommon.validate_runs(v, wd, filecommon.split_runs(args.replay), "replay", focus=("C12",))
        return v.finish()
    ps = progs.c12_programs(seed, tier)
    filecommon.run_programs(v, wd, exe, ps, "c12", focus=("C12",))
    v.add(states=v.cov.get("trace_events", 0), transitions=v.cov.get("trace_events", 0),
          rule="forward direction through the file: one case = one (width, sign of minimum) prototype with values at range extremes and alternating bit patterns; "
               "TLC extracts each record's stream from the data packets and requires it to equal the abstract LSB-first packing of value-min at width BitLen(max-min)",
          evaluations=v.cov.get("programs", 0), distinct_nontrivial=v.cov.get("traces_validated_against_impl", 0))
    v.assumptions += ["TLC, E57Format (abstract codec), harness recording code"]
    return v.finish()
