"""C12 — bit-packed integers: exact width, bit order and decode at any alignment."""
import vlib, filecommon, progs


def run(tier, seed, args):
    v = vlib.Verdict("C12", tier, seed, "model_checking")
    wd = vlib.workdir("C12")
    exe = vlib.build_harness()
    if args.replay:
        filecommon.validate_runs(v, wd, filecommon.split_runs(args.replay), "replay", focus=("C12",))
        return v.finish()
    # (A)+(B) the two bit-buffer machines: all operation sequences, invariants on the model, every edge replayed on the real types
    import pagecommon, json, os
    for side in ("w", "r"):
        bad, n = pagecommon.mc_and_replay(v, wd, exe, "MC_Bits", {"MaxDepth": (4 if side == "r" else 3) if tier == "quick" else (5 if side == "r" else 4), "Side": f'"{side}"'},
                                          ["WriteBufferIsPack", "ReadBufferIsTail"], [], "bits-replay", f"mcb_{side}")
        for i, b in enumerate(bad[:5]):
            rp = os.path.join(wd, "replay", f"bits_{side}_{i}.json")
            json.dump(b, open(rp, "w"))
            v.violation(f"MC_Bits:{side}:{b['kind']}:{json.dumps(b['case']['h'])[:80]}", rp, "real bit buffer disagrees with BitBuf on a model edge")
    # (C) forward direction through the file
    ps = progs.c12_programs(seed, tier)
    filecommon.run_programs(v, wd, exe, ps, "c12", focus=("C12",))
    # (C) backward direction: streams cut by the TLA+ encoder, decoded by the real reader
    import c03, xmlproj
    cases = [c for c in c03.encoder_cases(wd, tier == "thorough") if c["name"].startswith("w")]
    inp, ncases = c03.build_inputs(cases, wd, "c12enc")
    raw = os.path.join(wd, "c12enc.raw.ndjson")
    vlib.harness(exe, ["e57-read", "--cases", inp, "--out", raw])
    tr = os.path.join(wd, "c12enc.trace.ndjson")
    xmlproj.augment_trace(raw, tr)
    os.remove(raw); os.remove(inp)
    filecommon.validate_runs(v, wd, filecommon.split_runs(tr), "c12enc", focus=("C12",), jobs=6, batch_events=400)
    os.remove(tr)
    v.add(encoder_cases=ncases)
    v.add(states=v.cov.get("trace_events", 0), transitions=v.cov.get("trace_events", 0),
          rule="bit-buffer machines: every edge of MC_Bits replayed on the real buffers; backward direction: every width x 9 values (all bit phases) x every cut of the stream into packets from the TLA+ encoder, decoded by the real reader; forward direction through the file: one case = one (width, sign of minimum) prototype with values at range extremes and alternating bit patterns; "
               "TLC extracts each record's stream from the data packets and requires it to equal the abstract LSB-first packing of value-min at width BitLen(max-min)",
          evaluations=v.cov.get("programs", 0), distinct_nontrivial=v.cov.get("traces_validated_against_impl", 0))
    v.assumptions += ["TLC, E57Format (abstract codec), harness recording code"]
    return v.finish()
