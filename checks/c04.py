"""C04 — all metadata survives write -> read unchanged."""
import vlib, filecommon, progs


def run(tier, seed, args):
    v = vlib.Verdict("C04", tier, seed, "model_checking")
    wd = vlib.workdir("C04")
    exe = vlib.build_harness()
    if args.replay:
        filecommon.validate_runs(v, wd, filecommon.split_runs(args.replay), "replay", focus=("C04",))
        return v.finish()
    ps = progs.c04_programs(seed, tier)
    filecommon.run_programs(v, wd, exe, ps, "c04", focus=("C04",), jobs=6, batch_events=300)
    v.add(states=v.cov.get("trace_events", 0), transitions=v.cov.get("trace_events", 0),
          rule="one case = one setter program: every optional field present alone / all / none, setters twice and reset, strings over the XML character domain in every string position, "
               "floats incl. -0, subnormal, MAX, inf, NaN in every float position, all four image representations with/without mask, extension URLs, limit overrides; "
               "TLC requires the reader's report to equal the scene of the abstract writer field by field, the XML to conform to the transcribed schema and xml() to equal the file's XML bytes",
          evaluations=v.cov.get("programs", 0), distinct_nontrivial=v.cov.get("traces_validated_against_impl", 0))
    v.assumptions += ["TLC, E57Meta/E57Spec, harness recording, expat projection; NaN payloads canonicalised"]
    return v.finish()
