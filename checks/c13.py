"""C13 — normalised colour and intensity lie in [0,1], monotone, never NaN."""
import vlib, progs, c05
from vlib import log


def run(tier, seed, args):
    v = vlib.Verdict("C13", tier, seed, "model_checking")
    wd = vlib.workdir("C13")
    exe = vlib.build_harness()
    ps = progs.c13_programs(seed, tier)
    n, npts = c05.run_simple(v, wd, exe, ps, "c13", ("C13",))
    log(f"[C13] {len(ps)} sweeps, {n} iterations, {npts} normalised points checked")
    v.add(states=v.cov.get("trace_events", 0), transitions=v.cov.get("trace_events", 0),
          rule="one case = (attribute data type, declared range, limit setting, switch vector): every integer of small ranges, lattice points for floats and scaled integers; "
               "TLC requires the exact rational (v-min)/(max-min) within one 1/65536 grid unit, clamped, 0 at min, 1 at max, 0 for degenerate ranges, never NaN/inf, monotone; extreme ranges: bounds/no-NaN/monotone only",
          evaluations=n, distinct_nontrivial=n)
    v.assumptions += ["limits of mixed kinds and overridden limits of scaled-integer kind are left unspecified (type range used)"]
    return v.finish()
