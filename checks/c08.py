"""C08 — reading untrusted bytes never panics (shared machinery with C09)."""
import json, os, subprocess, time, glob
import vlib, sweepcommon, progs, mutgen
from vlib import log


def base_programs(seed):
    p = progs.small_protos()
    allset = [x for x in progs.c04_programs(seed, "quick") if x["name"] == "all_set"][0]
    return [
        progs.prog("b_small", [progs.new(), progs.blob(40, 1), progs.pc(p[0], 30, seed=seed), progs.image([progs.rep("visual", 60, mask=12)]), progs.FIN]),
        progs.prog("b_types", [progs.new(), progs.pc(p[5], 20, seed=seed + 1), progs.pc(p[2], 25, seed=seed + 2, guid="b"), progs.FIN]),
        dict(allset, name="b_allset"),
        progs.prog("b_ints", [progs.new(), progs.pc(progs.xyz_sint(-1000, 1000) + [progs.rec("intensity", "int", 0, 255), progs.rec("rowIndex", "int", 0, 9)], 40, seed=seed + 4), progs.FIN]),
        progs.prog("b_sph", [progs.new(), progs.pc(p[3] + [progs.rec("isIntensityInvalid", "int", 0, 1)], 12, seed=seed + 3,
                                                   setters=[progs.setter("transform", progs.tf((0.5, 0.5, 0.5, 0.5), (1.0, 2.0, 3.0)))]), progs.FIN]),
        # float-typed limits and declared float ranges: their texts accept every float the parser knows
        progs.prog("b_floats", [progs.new(), progs.pc(progs.xyz("single") + [progs.rec("intensity", "double", progs.f64(0.0), progs.f64(1.0))]
                                                      + [progs.rec(n, "single", progs.f32(0.0), progs.f32(1.0)) for n in ("colorRed", "colorGreen", "colorBlue")], 10, seed=seed + 5,
                                                      setters=[progs.setter("intensity_limits", {"min": progs.v_f64(0.0), "max": progs.v_f64(1.0)}),
                                                               progs.setter("color_limits", {"rmin": progs.v_f32(0.0), "rmax": progs.v_f32(1.0), "gmin": progs.v_f32(0.0), "gmax": progs.v_f32(1.0),
                                                                                             "bmin": progs.v_f32(0.0), "bmax": progs.v_f32(1.0)})]), progs.FIN]),
    ]


def supervise(exe, bases, muts, out, total, stall=60):
    """run the harness over all mutations; an abort / timeout / allocation cap is attributed to the case in progress"""
    start, aborts = 0, []
    progress = out + ".progress"
    while start < total:
        if os.path.exists(progress):
            os.remove(progress)
        errp = out + ".stderr"
        p = subprocess.Popen([exe, "untrusted-run", "--bases", bases, "--muts", muts, "--from", str(start), "--out", out],
                             stdout=subprocess.DEVNULL, stderr=open(errp, "w"))
        last, last_t, killed = None, time.time(), False
        while p.poll() is None:
            time.sleep(0.2)
            cur = open(progress).read() if os.path.exists(progress) else None
            if cur != last:
                last, last_t = cur, time.time()
            elif time.time() - last_t > stall:
                p.kill(); killed = True
                break
        p.wait()
        cur = open(progress).read() if os.path.exists(progress) else "0"
        if cur == "done":
            break
        idx = int(cur)
        err = open(errp, errors="replace").read()
        kind = "timeout" if killed else ("alloc_cap" if "memory allocation of" in err else "abort")
        aborts.append((idx, kind, err[-300:]))
        start = idx + 1
    return aborts


def run_untrusted(v, wd, exe, seed, tier, focus):
    bp = os.path.join(wd, "bases.ndjson")
    bases = base_programs(seed)
    # files of the independent encoder: layouts the crate's own writer never produces (empty data packets, index and
    # ignored packets, streams cut inside values) next to zero-width records
    import c03, materialize
    enc = {c["name"]: c for c in c03.encoder_cases(wd, False)}
    for nm in ("s1-25", "s3-43", "s2-40", "w1-43") + (("s1-37", "s4ok-34", "s3-19", "w2-34", "s2-16") if tier == "thorough" else ()):
        if nm in enc:
            img, _scene = materialize.build_file([enc[nm]], v=0, guid="enc-" + nm)
            fp = os.path.join(wd, f"encbase_{nm}.e57")
            open(fp, "wb").write(img)
            bases.append({"name": "enc_" + nm, "file": fp})
    with open(bp, "w") as f:
        for b in bases:
            f.write(json.dumps(b) + "\n")
    bd = os.path.join(wd, "bases"); os.makedirs(bd, exist_ok=True)
    vlib.harness(exe, ["dump-bases", "--bases", bp, "--out", bd])
    imgs = [open(os.path.join(bd, f"base{i}.e57"), "rb").read() for i in range(len(bases))]
    muts = mutgen.generate(imgs, seed, tier)
    # cost cases (QueueCostSpec): sections whose packets never complete a point until the last one, with bytes in the
    # streams of zero-width records; one next() walks through all packets.  Read as they are (no edits).
    import queuefiles
    M = 400 if tier == "quick" else 3000
    cost = [queuefiles.cost_case([0, 8], [4, 0], M, [0, 1], f"cost:zero-width-stream-4B-x{M}"),
            queuefiles.cost_case([0, 0, 16], [1, 2, 0], M, [0, 0, 2], f"cost:two-zero-width-streams-x{M}"),
            queuefiles.cost_case([8, 0, 3], [0, 7, 0], M, [1, 0, 1], f"cost:zero-width-stream-between-x{M}"),
            queuefiles.cost_case([64, 8], [0, 4], M, [8, 0], f"cost:wide-record-starved-x{M}"),
            queuefiles.cost_case([13, 64], [1, 0], M, [1, 8], f"cost:narrow-record-ahead-x{M}"),
            queuefiles.cost_case([8], [0], M, [1], f"cost:empty-data-packets-x{M}")]
    for c in cost:
        img, _scene = materialize.build_file([c], v=0, guid="cost")
        fp = os.path.join(wd, "costbase_" + c["name"].split(":")[1] + ".e57")
        open(fp, "wb").write(img)
        bases.append({"name": c["name"], "file": fp})
        muts.append({"name": c["name"], "base": len(bases) - 1, "edits": []})
    with open(bp, "w") as f:
        for b in bases:
            f.write(json.dumps(b) + "\n")
    mp = os.path.join(wd, "muts.ndjson")
    with open(mp, "w") as f:
        for m in muts:
            f.write(json.dumps(m) + "\n")
    # split over parallel supervisors
    jobs = 8
    import concurrent.futures as cf
    chunks = [muts[i::jobs] for i in range(jobs)]
    def work(j):
        cp = os.path.join(wd, f"muts{j}.ndjson")
        with open(cp, "w") as f:
            for m in chunks[j]:
                f.write(json.dumps(m) + "\n")
        op = os.path.join(wd, f"untrusted{j}.ndjson")
        if os.path.exists(op):
            os.remove(op)
        ab = supervise(exe, bp, cp, op, len(chunks[j]))
        return j, op, ab
    with cf.ThreadPoolExecutor(max_workers=jobs) as ex:
        res = list(ex.map(work, range(jobs)))
    tp = os.path.join(wd, "untrusted.trace.ndjson")
    nab = 0
    with open(tp, "w") as t:
        t.write(json.dumps({"ev": "reset", "name": "untrusted"}) + "\n")
        for j, op, ab in res:
            if os.path.exists(op):
                t.write(open(op).read())
            for idx, kind, err in ab:
                t.write(json.dumps({"ev": "untrusted_abort", "name": chunks[j][idx]["name"], "kind": kind, "mutation": chunks[j][idx], "stderr": err}) + "\n")
                nab += 1
    def key(e):
        return e["name"].split(":", 1)[1][:60] if ":" in e.get("name", "") else e.get("name", "?")
    r, lines = sweepcommon.validate_sweep(v, wd, "Trace_Untrusted", tp, focus, "untrusted", lambda e: key(e), ctx={"bases": bases}, jobs=1)
    evs = [json.loads(x) for x in lines if '"ev":"untrusted"' in x]
    nops = sum(len(e["ops"]) for e in evs)
    outs = {}
    for e in evs:
        for o in e["ops"]:
            outs[(o["op"], o["out"])] = outs.get((o["op"], o["out"]), 0) + 1
    opened = sum(1 for e in evs if any(o["op"] == "open" and o["out"] == "ok" for o in e["ops"]))
    log(f"[{v.pid}] {len(muts)} mutated files ({opened} still open), {nops} entry-point runs, {nab} aborted/timed-out processes")
    v.cov["outcomes"] = {f"{k[0]}:{k[1]}": n for k, n in sorted(outs.items())}
    v.sample(muts[5]); v.sample(muts[len(muts) // 2])
    if evs:
        v.sample({"name": evs[3]["name"], "ops": evs[3]["ops"][:4]})
    v.add(evaluations=len(muts), distinct_nontrivial=opened, traces_validated_against_impl=len(evs) + nab)
    for f in glob.glob(os.path.join(wd, "muts*.ndjson")) + glob.glob(os.path.join(wd, "untrusted*.ndjson*")):
        os.remove(f)
    return muts


def run(tier, seed, args):
    v = vlib.Verdict("C08", tier, seed, "exploration")
    wd = vlib.workdir("C08")
    exe = vlib.build_harness()
    run_untrusted(v, wd, exe, seed, tier, ("C08",))
    v.add(rule="one case = one mutated file: every numeric field of file header, section headers, packet headers and stream-size tables x a boundary class, every numeric XML attribute/text x a value class "
               "(0, +-1, 2^31, 2^63, 2^64-1, beyond, NaN, +-inf, 1e999, empty, non-numeric), type and structure mutations of the XML, pairs by sampling, pages re-sealed; plus unsealed byte damage, truncations, extensions; "
               "every reading entry point (open, validate_crc, raw_xml, listing, raw and simple iteration under three option vectors, blob extraction incl. arbitrary descriptors) runs with overflow checks on; "
               "distinct non-trivial = mutated files that still open")
    v.assumptions += ["structured mutations of valid files, not all byte strings; no coverage-guided fuzzing (different technique family)"]
    return v.finish()
