"""C03 — reader decodes every well-formed E57 file whatever legal layout was chosen."""
import json, os, subprocess
import vlib, filecommon, xmlproj, materialize
from vlib import log


def encoder_cases(wd, deep):
    """(A) MC_Encode: TLC enumerates scenes x layouts, proves decode(encode) = id on each, prints them"""
    cfg = os.path.join(wd, "mce.cfg")
    open(cfg, "w").write(f"INIT Init\nNEXT Next\nCONSTANT Deep = {'TRUE' if deep else 'FALSE'}\nCHECK_DEADLOCK FALSE\n")
    out = os.path.join(wd, "mce.out")
    p = subprocess.run(["timeout", "3000", "tlc", "-workers", "1", "-metadir", os.path.join(wd, "me"), "-cleanup", "-noGenerateSpecTE",
                        "-config", cfg, os.path.join(vlib.SPEC, "MC_Encode.tla")], stdout=open(out, "w"), stderr=subprocess.STDOUT, cwd=wd,
                       env=dict(os.environ, JAVA_TOOL_OPTIONS=f"-Xss512m -Djava.io.tmpdir={vlib.tmpdir(wd)}"))
    txt = open(out, errors="replace").read()
    if "No error has been found" not in txt:
        raise vlib.ToolError("MC_Encode failed (model-level round trip or evaluation error):\n" + "\n".join(l for l in txt.splitlines() if not l.startswith('"CASE'))[-3000:])
    cases = os.path.join(wd, "cases.ndjson")
    n = vlib.extract_lines(out, "CASE", cases)
    os.remove(out)
    return [json.loads(l) for l in open(cases)]


def queue_model(v, wd, deep):
    """(A0) QueueSpec: the queue reader and the iterators' refill loop against EVERY packetisation of small sections.
    The invariants hold for the protocol as built; each named variant (two repaired defects, two seeded changes, a missing
    cap) has a counterexample, which shows that the invariants are able to fail (model self-test)."""
    inv = ["NoPastNoFail", "CapHolds", "DoneMeansAll", "MemBound", "WellFormed", "AllArrive", "RefusedIffAllZero"]
    runs = [("asbuilt", "iterator", "MCWidths" if deep else "MCWidthsSmall", 5 if deep else 3, 2 if deep else 1, inv, ["Terminates"], True),
            ("asbuilt", "direct", "MCWidths" if deep else "MCWidthsSmall", 4 if deep else 3, 2 if deep else 1, ["MemBound", "WellFormed", "AllArrive", "RefusedIffAllZero"], [], True),
            ("single_advance", "iterator", "MCWidthsSmall", 3, 1, ["NoPastNoFail"], [], False),
            ("no_cap", "iterator", "MCWidthsSmall", 3, 1, ["CapHolds"], [], False),
            ("fill_cap", "iterator", "MCWidthsSmall", 3, 1, ["NoPastNoFail"], [], False),
            ("allzero_allowed", "iterator", "MCWidthsSmall", 3, 1, ["MemBound"], [], False)]
    out = []
    for variant, driver, widths, maxn, other, invs, props, expect_ok in runs:
        cfg = os.path.join(wd, f"queue_{variant}_{driver}.cfg")
        vlib.write_cfg(cfg, spec="Spec", constants={"Variant": f'"{variant}"', "Driver": f'"{driver}"', "Widths": "<- " + widths, "MaxN": maxn, "MaxOther": other, "FillCap": 1},
                       invariants=invs, properties=props)
        r = vlib.tlc_mc("MC_Queue", cfg, os.path.join(wd, f"queue_{variant}_{driver}.out"), workers=4, timeout=1200)
        ok = r["violated"] is None and r["ok"]
        out.append({"variant": variant, "driver": driver, "widths": widths, "MaxN": maxn, "holds": ok, "states": r["distinct"], "violated": r["violated"]})
        if ok != expect_ok:
            raise vlib.ToolError(f"QueueSpec: variant '{variant}' ({driver}) expected {'to hold' if expect_ok else 'to be violated'}; TLC: {r['violated']} (see {r['out']})")
        v.add(states=r["distinct"], transitions=r["generated"])
    v.cov["queue_model"] = out
    log(f"[{v.pid}] (A0) QueueSpec: invariants hold for every packetisation in the bounded instance as built ({out[0]['states']} + {out[1]['states']} states), each of the {len(out) - 2} protocol variants has a counterexample")


def queue_files(v, wd, deep):
    """(A1) every file of QueueSpec's bounded environment, exported by TLC (MC_QueueExport), as cases for the real reader"""
    import queuefiles
    cfg = os.path.join(wd, "qexport.cfg")
    vlib.write_cfg(cfg, init="Init", nxt="Next", constants={"Variant": '"asbuilt"', "Driver": '"iterator"', "Widths": "<- MCWidthsSmall", "MaxN": 0, "MaxOther": 0, "FillCap": 1,
                                                           "ExpN": 4, "ExpOther": 1, "ExpBytes": 6 if deep else 4})
    out = os.path.join(wd, "qexport.out")
    p = subprocess.run(["timeout", "1800", "tlc", "-workers", "1", "-metadir", os.path.join(wd, "mq"), "-cleanup", "-noGenerateSpecTE",
                        "-config", cfg, os.path.join(vlib.SPEC, "MC_QueueExport.tla")], stdout=open(out, "w"), stderr=subprocess.STDOUT, cwd=wd,
                       env=dict(os.environ, JAVA_TOOL_OPTIONS=f"-Xss512m -Djava.io.tmpdir={vlib.tmpdir(wd)}"))
    qs = [json.loads(json.loads(l)[6:]) for l in open(out, errors="replace") if l.startswith('"QFILE')]
    if not qs or "No error has been found" not in open(out, errors="replace").read():
        raise vlib.ToolError("MC_QueueExport failed:\n" + open(out, errors="replace").read()[-2000:])
    os.remove(out)
    cases = [queuefiles.case_of(q, i) for i, q in enumerate(qs)]
    log(f"[C03] (A1) MC_QueueExport: {len(cases)} files = every packet sequence of the bounded QueueSpec environment")
    return cases


def build_inputs(cases, wd, tag, two_pc_every=7):
    """materialise: one file per case with a rotating XML lexical variant; some files hold two point clouds"""
    path = os.path.join(wd, f"{tag}.inputs.ndjson")
    n = 0
    with open(path, "w") as f:
        for i, c in enumerate(cases):
            group = [c]
            if i % two_pc_every == 0 and i + 1 < len(cases):
                # second section right behind the first one: re-base is not possible (offsets are baked in), so only
                # combine when the next case was encoded for a later start
                nxt = cases[i + 1]
                end = c["lstart"] + len(c["sec"]) + ((4 - len(c["sec"]) % 4) % 4)
                if nxt["lstart"] >= end:
                    group = [c, nxt]
            img, scene = materialize.build_file(group, v=i % 6, guid=f"enc-{i}")
            name = "+".join(g["name"] for g in group) + f":xml{i % 6}"
            f.write(json.dumps({"name": name, "scene": scene, "bytes": list(img)}) + "\n")
            n += 1
    return path, n


def serialized_sources(wd, seed, tier):
    """files of the independent encoder as sources for other checks (C19)"""
    cases = encoder_cases(wd, False)
    out = []
    byname = {c["name"]: c for c in cases}
    second = byname.get("s1-at-2008")
    for c in cases:
        # two point clouds with free space between them; a copy packs them back to back
        if c["name"].startswith("big-") and second is not None:
            img, scene = materialize.build_file([c, second], v=0, guid="enc-" + c["name"])
            fp = os.path.join(wd, f"enc_{c['name']}.e57")
            open(fp, "wb").write(img)
            out.append({"name": f"enc:{c['name']}+s1", "file": fp})
    for i, c in enumerate([c for c in cases if not c["name"].startswith("big-")][:: (9 if tier == "quick" else 3)]):
        # (file GUIDs with multi-byte characters: the XML length of the copy is counted in bytes)
        img, scene = materialize.build_file([c], v=i % 6, guid=f"enc-{i}" + ("-東京–ü\U0001F600" if i % 2 else ""))
        fp = os.path.join(wd, f"enc_{i}.e57")
        open(fp, "wb").write(img)
        out.append({"name": f"enc:{c['name']}:xml{i % 6}", "file": fp})
    return out


def run(tier, seed, args):
    v = vlib.Verdict("C03", tier, seed, "model_checking")
    wd = vlib.workdir("C03")
    exe = vlib.build_harness()
    deep = tier == "thorough"
    queue_model(v, wd, deep)
    if deep:
        vlib.tlaps(v, wd, "QueueLemmas", ["Conservation", "AllArrive", "PaddingBound", "NoPaddingValuesFromByteWide"])
    cases = encoder_cases(wd, deep)
    log(f"[C03] (A) MC_Encode: {len(cases)} scene x layout cases, decoder(encoder(case)) = case for each")
    nenc = len(cases)
    cases = cases + queue_files(v, wd, deep)
    inp, n = build_inputs(cases, wd, "c03")
    raw = os.path.join(wd, "c03.raw.ndjson")
    aborts = vlib.harness_supervised(exe, ["e57-read", "--cases", inp, "--queue-policies", 4 if deep else 2], raw, n)
    vlib.drop_aborted_runs(raw, {a[0] for a in aborts})
    for idx, kind, err in aborts:
        # the reader did not survive a well-formed file: unbounded allocation, stack overflow or a hang
        case = json.loads(open(inp).read().splitlines()[idx])
        rp = os.path.join(wd, "replay", f"c03_abort_{idx}.json"); os.makedirs(os.path.dirname(rp), exist_ok=True)
        json.dump({"kind": kind, "stderr": err, "case": case}, open(rp, "w"))
        v.violation(f"reader-process-{kind}@{case['name']}", rp, f"(the harness process reading case {idx} '{case['name']}' ended with {kind})")
    tr = os.path.join(wd, "c03.trace.ndjson")
    xmlproj.augment_trace(raw, tr)
    os.remove(raw); os.remove(inp)
    runs = filecommon.split_runs(tr)
    os.remove(tr)
    v.sample({"case": {k: (cases[0][k] if k != "sec" else f"<{len(cases[0]['sec'])} bytes>") for k in ("name", "lstart", "layout", "sec")}})
    v.sample({"case": {k: (cases[len(cases) // 2][k] if k != "sec" else "<bytes>") for k in ("name", "lstart", "layout", "sec")}})
    filecommon.validate_runs(v, wd, runs, "c03", focus=("C03", "C02"), jobs=6, batch_events=400)
    v.add(states=len(cases), transitions=len(cases), programs=n,
          rule="one case = one (scene, layout) of the TLA+ encoder: packetisations of each record's stream (every cut position of short streams, unequal/skewed per record, three packets, empty packets that complete no point), "
               "index and ignored packets between data packets, section start swept across the page boundary, all integer widths at all bit phases, XML lexical variants (attribute order/quotes, comments, prefixed namespace, "
               "number forms, omitted optional attributes, self-closing/no declaration); each materialised file is read by the real reader and validated by TLC against the scene",
          evaluations=n, distinct_nontrivial=len(cases))
    v.assumptions += ["legality of each layout is taken from the standard as transcribed in E57Encode/E57Format; the model-level round trip guards encoder and decoder against each other",
                      "XML text is generated by the materialiser (Python) from the scene; section bytes come from the TLA+ encoder"]
    return v.finish()
