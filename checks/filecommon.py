"""File-level pipeline shared by C01/C02/C06/C10/C12/...: run writer/reader programs on the real
API (harness), add the XML projection, let TLC validate the trace against E57Spec/E57Format."""
import json, os, concurrent.futures as cf
import vlib, xmlproj
from vlib import log


def split_runs(trace):
    """-> list of (name, [lines])"""
    runs, cur, name = [], None, None
    with open(trace) as f:
        for line in f:
            if line.startswith('{"ev":"reset"') or '"ev":"reset"' in line[:40]:
                if cur is not None:
                    runs.append((name, cur))
                cur = [line]
                try:
                    name = json.loads(line).get("name", "?")
                except Exception:
                    name = "?"
            elif cur is not None:
                cur.append(line)
    if cur is not None:
        runs.append((name, cur))
    return runs


def validate_runs(v, wd, runs, tag, module="Trace_E57", focus=(), batch_events=600, jobs=5, max_reject=12):
    """Validate runs in batches (parallel TLC instances). A rejected run is recorded and validation
    continues behind it, so one defect cannot hide the rest of the trace."""
    batches, cur, n = [], [], 0
    for r in runs:
        cur.append(r); n += len(r[1])
        if n >= batch_events:
            batches.append(cur); cur, n = [], 0
    if cur:
        batches.append(cur)
    rejected = []

    def work(bi):
        todo = batches[bi]
        out = []
        k = 0
        while todo and k <= max_reject:
            tp = os.path.join(wd, f"{tag}_b{bi}_{k}.ndjson")
            with open(tp, "w") as f:
                for _, lines in todo:
                    f.writelines(lines)
            r = vlib.tlc_trace(module, tp, os.path.join(wd, f"{tag}_b{bi}_{k}.tlc.out"), focus=focus)
            for d in r.get("drift", []):
                if d not in v.drift:
                    v.drift.append(d)
            if r["accepted"]:
                out.append(("ok", len(todo), r["events"], r.get("nonfocus", [])))
                os.remove(tp)
                break
            # locate the run containing event r["at"]
            pos, idx = 0, 0
            for idx, (_, lines) in enumerate(todo):
                if pos + len(lines) >= r["at"]:
                    break
                pos += len(lines)
            name, lines = todo[idx]
            out.append(("rej", name, r, lines, r["at"] - pos, idx, sum(len(x[1]) for x in todo[:idx]), r.get("nonfocus", [])))
            todo = todo[idx + 1:]
            os.remove(tp)
            k += 1
        return out

    with cf.ThreadPoolExecutor(max_workers=jobs) as ex:
        results = list(ex.map(work, range(len(batches))))
    nonfocus = set()
    for bi, outs in enumerate(results):
        for o in outs:
            if o[0] == "ok":
                v.add(traces_validated_against_impl=o[1], trace_events=o[2])
                nonfocus.update(o[3])
            else:
                _, name, r, lines, rel, idx, before, nf = o
                nonfocus.update(nf)
                v.add(traces_validated_against_impl=idx, trace_events=before)
                rp = os.path.join(wd, "replay", f"{tag}_{name}.rejected.ndjson".replace("/", "_"))
                with open(rp, "w") as f:
                    f.writelines(lines)
                sig = f"{module}:{r['ev']}:{r['tag']}@{name}"
                if (r["tag"] or "").startswith("S:"):
                    v.drift.append(f"{sig} at event {rel} of {rp}")
                else:
                    v.violation(sig, rp, f"(TLC rejected event {rel} of run '{name}': {r['ev']}, predicate {r['tag']})")
                rejected.append((name, r["tag"]))
    if nonfocus:
        v.cov["other_property_predicates_false"] = sorted(nonfocus)[:40]
    return rejected


def run_programs(v, wd, exe, progs, tag, focus, read=None, jobs=5, batch_events=600):
    pp = os.path.join(wd, f"{tag}.progs.ndjson")
    with open(pp, "w") as f:
        for p in progs:
            if read is not None and "read" not in p:
                p = dict(p, read=read)
            f.write(json.dumps(p) + "\n")
    raw = os.path.join(wd, f"{tag}.raw.ndjson")
    # supervised: a writer or reader call that never returns, or that takes the process down (allocation cap, stack
    # overflow), is attributed to the program in progress and reported; the run continues behind it
    aborts = vlib.harness_supervised(exe, ["e57-run", "--progs", pp], raw, len(progs), stall=120)
    vlib.drop_aborted_runs(raw, {a[0] for a in aborts})
    for idx, kind, err in aborts:
        rp = os.path.join(wd, "replay", f"{tag}_abort_{idx}.json"); os.makedirs(os.path.dirname(rp), exist_ok=True)
        json.dump({"kind": kind, "stderr": err, "program": progs[idx]}, open(rp, "w"))
        v.violation(f"process-{kind}@{progs[idx]['name']}", rp, f"(the harness process running program {idx} '{progs[idx]['name']}' ended with {kind}: a call did not return or took the process down)")
    tr = os.path.join(wd, f"{tag}.trace.ndjson")
    xmlproj.augment_trace(raw, tr)
    os.remove(raw)
    runs = split_runs(tr)
    os.remove(tr)
    for name, lines in runs[:2]:
        evs = []
        for ln in lines[:8]:
            e = json.loads(ln)
            for k in ("b", "bytes", "pts", "xml", "mask"):
                if k in e:
                    e[k] = f"<{k}>"
            if "res" in e and isinstance(e["res"], dict) and "ok" in e["res"] and not isinstance(e["res"]["ok"], int):
                e["res"] = {"ok": "<...>"}
            evs.append(e)
        v.sample({"program": name, "trace_prefix": evs})
    log(f"[{v.pid}] {tag}: {len(progs)} programs -> {sum(len(r[1]) for r in runs)} events")
    rej = validate_runs(v, wd, runs, tag, focus=focus, jobs=jobs, batch_events=batch_events)
    v.add(programs=len(progs))
    return rej
