"""Page-layer pipelines shared by C11 / C07 / C17(page part): exhaustive TLC search with edge
export, replay of every edge on the real types, confirmation of disagreements through TLC trace
validation, randomised traces validated by TLC."""
import json, os
import vlib
from vlib import log


def mc_and_replay(v, wd, exe, module, consts, invariants, properties, replay_cmd, tag, timeout=3000,
                  view="MCView", constraint=None):
    """(A) exhaustive search + (B) replay every exported edge. Returns number of edges."""
    cfg = os.path.join(wd, f"{tag}.cfg")
    c = dict(consts); c["Export"] = True
    vlib.write_cfg(cfg, constants=c, invariants=invariants, properties=properties, view=view,
                   constraint=constraint, action_constraint="Edge")
    out = os.path.join(wd, f"{tag}.out")
    r = vlib.tlc_mc(module, cfg, out, timeout=timeout)
    log(f"[{v.pid}] (A) {module} {consts}: {r['distinct']} distinct states, {r['generated']} transitions, depth {r['depth']}, {r['wall_s']}s")
    v.add(states=r["distinct"], transitions=r["generated"])
    v.cov.setdefault("model_runs", []).append({"module": module, "constants": consts, "distinct_states": r["distinct"],
                                               "transitions": r["generated"], "depth": r["depth"], "wall_s": r["wall_s"],
                                               "invariants": list(invariants) + list(properties)})
    if r["violated"]:
        # the specification itself violates the property: a modelling error, never a verdict about the code
        raise vlib.ToolError(f"model-level violation of {r['violated']} in {module}:\n{r['tail'][-2500:]}")
    edges = os.path.join(wd, f"{tag}.edges.ndjson")
    n = vlib.extract_lines(out, "EDGE", edges)
    os.remove(out)
    rep = os.path.join(wd, f"{tag}.replay.ndjson")
    vlib.harness(exe, [replay_cmd, "--edges", edges, "--out", rep])
    lines = [json.loads(x) for x in open(rep)]
    summ = lines[-1]
    log(f"[{v.pid}] (B) replayed {summ['edges']} model edges on the real type: {summ['mismatches']} disagree, {summ['panics']} panics")
    v.add(edges_replayed=summ["edges"])
    with open(edges) as f:
        for i, line in enumerate(f):
            if i in (0, n // 2, n - 1):
                v.sample({"model_edge": json.loads(line)})
    os.remove(edges)
    return lines[:-1], n


def confirm_w(v, wd, exe, bad, maxn=5):
    """Re-record disagreeing writer histories as traces and let TLC judge them (C)."""
    for i, b in enumerate(bad[:maxn]):
        hp = os.path.join(wd, "replay", f"edge_w_{i}.history.json")
        json.dump(b["h"], open(hp, "w"))
        if b["kind"] == "panic":
            v.violation(f"panic:{b['msg'][:60]}", hp, "real code panicked on a model history")
            continue
        tp = os.path.join(wd, "replay", f"edge_w_{i}.trace.ndjson")
        vlib.harness(exe, ["page-trace-history", "--history", hp, "--out", tp])
        judge_trace(v, wd, tp, f"edge_w_{i}", expect_reject=True)


def confirm_r(v, wd, exe, bad, maxn=5):
    for i, b in enumerate(bad[:maxn]):
        cp = os.path.join(wd, "replay", f"edge_r_{i}.case.json")
        json.dump(b["case"], open(cp, "w"))
        if b["kind"] == "panic":
            v.violation(f"panic:{b['msg'][:60]}", cp, "real code panicked on a model history")
            continue
        tp = os.path.join(wd, "replay", f"edge_r_{i}.trace.ndjson")
        vlib.harness(exe, ["page-trace-case-r", "--case", cp, "--out", tp])
        judge_trace(v, wd, tp, f"edge_r_{i}", expect_reject=True)


def judge_trace(v, wd, trace, tag, expect_reject=False, module="Trace_Page"):
    """(C) TLC validates a recorded trace. Property-tier rejection = violation; strict = drift."""
    r = vlib.tlc_trace(module, trace, os.path.join(wd, f"{tag}.tlc.out"))
    if r["accepted"]:
        v.add(traces_validated_against_impl=1, trace_events=r["events"])
        if expect_reject:
            raise vlib.ToolError(f"edge digest disagreed but TLC accepts the recorded trace {trace}: harness/model inconsistency")
        return True
    rp = os.path.join(wd, "replay", f"{tag}.rejected.ndjson")
    rel = vlib.cut_run(trace, r["at"], rp)
    sig = f"{module}:{r['ev']}:{r['tag']}"
    if (r["tag"] or "").startswith("S:"):
        v.drift.append(f"{sig} at event {rel} of {rp}")
        return False
    v.violation(sig, rp, f"(TLC rejected event {rel}: {r['ev']}, predicate {r['tag']})")
    return False
