"""C09 — reading untrusted bytes uses bounded time and memory per call."""
import vlib, c08


def run(tier, seed, args):
    v = vlib.Verdict("C09", tier, seed, "exploration")
    wd = vlib.workdir("C09")
    exe = vlib.build_harness()
    c08.run_untrusted(v, wd, exe, seed, tier, ("C09",))
    v.add(rule="same mutated files as C08; per call the harness records device bytes read, peak heap allocated (counting allocator) and points yielded; TLC checks devread <= 2*size + 2 pages, "
               "alloc <= 512 B*(n+8)*size + 64 MiB (n = declared prototype length), yielded <= recordCount; a process killed by the allocation cap (3 GiB) or stalled for 25 s is a violation")
    v.assumptions += ["time is replaced by counted bytes/allocations plus a stall timeout; constants are deliberately loose (they separate 'proportional to the input' from 'driven by a field inside the file')"]
    return v.finish()
