"""C09 — reading untrusted bytes uses bounded time and memory per call."""
import vlib, c08


def cost_model(v, wd, deep):
    """QueueCostSpec: the cost of one next() against an environment that may put any sizes into any stream.  Holds for the
    code as built; the variant that keeps the stream bytes of zero-width records (the code before D-29) has counterexamples."""
    import os
    from vlib import log
    runs = [("asbuilt", ["HeldBound", "WorkLinear", "TotalLinear", "CWellFormed", "SlackSmall"], True, 4 if deep else 3, 6 if deep else 5),
            ("buffer_zero", ["WorkLinear"], False, 3, 5), ("buffer_zero", ["HeldBound"], False, 3, 5), ("buffer_zero", ["TotalLinear"], False, 3, 5)]
    out = []
    for k, (variant, invs, expect_ok, ms, mp) in enumerate(runs):
        cfg = os.path.join(wd, f"qcost_{k}.cfg")
        vlib.write_cfg(cfg, spec="Spec", constants={"Variant": f'"{variant}"', "CWidths": "<- MCCostWidths", "MaxSize": ms, "MaxPackets": mp}, invariants=invs)
        r = vlib.tlc_mc("MC_QueueCost", cfg, os.path.join(wd, f"qcost_{k}.out"), workers=6, timeout=1500)
        ok = r["violated"] is None and r["ok"]
        out.append({"variant": variant, "invariants": invs, "holds": ok, "states": r["distinct"], "violated": r["violated"]})
        if ok != expect_ok:
            raise vlib.ToolError(f"QueueCostSpec: variant '{variant}' expected {'to hold' if expect_ok else 'to be violated'}; TLC: {r['violated']} (see {r['out']})")
        v.add(states=r["distinct"], transitions=r["generated"])
    v.cov["queue_cost_model"] = out
    log(f"[{v.pid}] QueueCostSpec: WorkLinear/HeldBound/TotalLinear hold as built ({out[0]['states']} states); the variant that buffers zero-width streams violates each")


def run(tier, seed, args):
    v = vlib.Verdict("C09", tier, seed, "exploration")
    wd = vlib.workdir("C09")
    exe = vlib.build_harness()
    cost_model(v, wd, tier == "thorough")
    c08.run_untrusted(v, wd, exe, seed, tier, ("C09",))
    v.add(rule="same mutated files as C08; per call the harness records device bytes read, peak heap allocated (counting allocator) and points yielded; TLC checks devread <= 2*size + 2 pages, "
               "alloc <= 512 B*(n+8)*size + 64 MiB (n = declared prototype length), yielded <= recordCount, bytes moved by the byte-stream buffers in one call (work-counter hook) <= 6*size + 4 KiB (QueueCostSpec.WorkLinear; directed cost cases: hundreds of packets that never complete a point, bytes in zero-width streams); a process killed by the allocation cap (3 GiB) or stalled for 25 s is a violation")
    v.assumptions += ["time is replaced by counted bytes/allocations plus a stall timeout; constants are deliberately loose (they separate 'proportional to the input' from 'driven by a field inside the file')"]
    return v.finish()
