"""C11 — page layer: file payload always equals the logical stream written."""
import json, os
import vlib, pagecommon
from vlib import log


def repo_test_traces(v, wd):
    import repotrace, filecommon
    raw = os.path.join(wd, "repotests.raw.ndjson")
    if os.path.exists(raw):
        os.remove(raw)
    env = {"RUSTFLAGS": "--cfg e57_verif --check-cfg cfg(e57_verif)", "E57_VERIF_TRACE": raw,
           "CARGO_TARGET_DIR": os.path.join(vlib.HARNESS, "target_repotests")}
    rc, out = vlib.sh("cargo test --offline --no-fail-fast", cwd="/repo", env=env, timeout=1800)
    passed = sum(int(l.split()[3]) for l in out.splitlines() if l.startswith("test result:"))
    failed = sum(int(l.split()[5]) for l in out.splitlines() if l.startswith("test result:"))
    if not os.path.exists(raw):
        raise vlib.ToolError("the repository's tests produced no trace (hooks missing or build failed)\n" + out[-2000:])
    conv = os.path.join(wd, "repotests.ndjson")
    st = repotrace.convert(raw, conv)
    os.remove(raw)
    runs = filecommon.split_runs(conv)
    os.remove(conv)
    filecommon.validate_runs(v, wd, runs, "repotests", module="Trace_Page", focus=("C11",), jobs=8, batch_events=500)
    st.update(tests_passed=passed, tests_failed=failed)
    v.cov["repository_test_traces"] = st
    log(f"[C11] (C) repository test-suite with emitters on: {passed} passed/{failed} failed; {st['writers']} page writers and {st['readers']} page readers, {st['events']} events validated by TLC")
    return st


def run(tier, seed, args):
    v = vlib.Verdict("C11", tier, seed, "model_checking")
    wd = vlib.workdir("C11")
    exe = vlib.build_harness()
    if args.replay:
        ok = pagecommon.judge_trace(v, wd, args.replay, "replay")
        return v.finish()
    deep = tier == "thorough"
    # (A)+(B) writer side
    inv = ["C11_Between", "C11_FlushPoint", "C11_Position"]
    bad, n1 = pagecommon.mc_and_replay(v, wd, exe, "MC_PageW", {"MaxDepth": 4 if deep else 3, "MaxPages": 4, "Merge": False},
                                       inv, [], "page-replay-w", "mcw", constraint="Bound")
    pagecommon.confirm_w(v, wd, exe, bad)
    # (A)+(B) reader side (no altered pages here; C07 explores those)
    bad, n2 = pagecommon.mc_and_replay(v, wd, exe, "MC_PageR", {"MaxDepth": 4 if deep else 3, "MaxCorrupt": 0, "Merge": True},
                                       ["C11_ReadCache", "MC_ReadCache"], ["PropRead", "PropSeek"], "page-replay-r", "mcr")
    pagecommon.confirm_r(v, wd, exe, bad)
    if deep:
        bad, n3 = pagecommon.mc_and_replay(v, wd, exe, "MC_PageR", {"MaxDepth": 3, "MaxCorrupt": 0, "Merge": False},
                                           ["C11_ReadCache", "MC_ReadCache"], ["PropRead", "PropSeek"], "page-replay-r", "mcr_tree")
        pagecommon.confirm_r(v, wd, exe, bad)
        n2 += n3
    # (C) randomised long histories, boundary-focused, validated by TLC at the real constants
    runs, ops = (200, 300) if deep else (24, 150)
    batches = 10 if deep else 1
    for b in range(batches):
        tp = os.path.join(wd, f"fuzz_{b}.ndjson")
        vlib.harness(exe, ["page-fuzz", "--seed", seed * 1000 + b, "--runs", runs // batches, "--ops", ops, "--out", tp])
        n_ev = sum(1 for _ in open(tp))
        ok = pagecommon.judge_trace(v, wd, tp, f"fuzz_{b}")
        log(f"[C11] (C) fuzz batch {b}: {n_ev} events, accepted={ok}")
        if b == 0:
            with open(tp) as f:
                evs = [json.loads(next(f)) for _ in range(6)]
            for e in evs:
                for k in ("b", "dev", "img"):
                    if k in e:
                        e[k] = f"<{len(e[k])} bytes>"
            v.sample({"trace_prefix": evs})
        os.remove(tp)
    # (C) traces of the repository's own test-suite: the guarded emitters in PagedWriter/PagedReader record every
    # call of every page writer/reader instance the 85 tests create; TLC validates each instance against PageSpec
    rt = repo_test_traces(v, wd)
    if deep:
        # unbounded complement to the translation clause: TLAPS proves the position arithmetic for all naturals
        import shutil, re
        pd = os.path.join(wd, "proofs"); os.makedirs(pd, exist_ok=True)
        shutil.copy(os.path.join(vlib.SPEC, "proofs", "PosLemmas.tla"), pd)
        rc, out = vlib.sh("timeout 1200 tlapm --cleanfp --threads 6 PosLemmas.tla", cwd=pd, timeout=1300)
        m = re.search(r"All (\d+) obligations proved", out)
        if not m:
            raise vlib.ToolError("TLAPS did not discharge the position lemmas:\n" + out[-1500:])
        v.cov["tlaps"] = {"module": "spec/proofs/PosLemmas.tla", "obligations": int(m.group(1)), "discharged": int(m.group(1)),
                          "theorems": ["InPayload", "RoundTrip", "Onto", "Monotone", "Align4", "SizeCovers"]}
        log(f"[C11] TLAPS: all {m.group(1)} obligations of PosLemmas proved")
    v.add(exhaustive=True,
          rule="every edge of the bounded PageSpec model (depth-bounded histories over boundary-focused sizes/positions at the real page size) is one case; "
               "distinct = distinct model states reached; plus randomised histories validated event by event by TLC",
          evaluations=n1 + n2 + v.cov.get("trace_events", 0), distinct_nontrivial=v.cov.get("states", 0))
    v.assumptions += ["TLC, the PageSpec specification, the recording code of the harness",
                      "behaviour after a refused physical_seek is not claimed (D-11)"]
    return v.finish()
