"""C10 — writer API is total and never stores what it cannot represent."""
import os
import vlib, filecommon, progs
from vlib import log


def packet_model(v, wd, deep):
    """PacketWriterSpec (capacity scaled down): packets fit, nothing is lost, no panic, finalize terminates for the writer as
    built; the unguarded capacity arithmetic (before D-23) has counterexamples for NoPanic and for termination."""
    out = []
    for variant, invs, props, expect_ok in (("asbuilt", ["PacketFits", "NothingLost", "NoPanic"], ["Terminates"], True),
                                            ("unguarded", ["NoPanic"], [], False), ("unguarded", ["PacketFits", "NothingLost"], ["Terminates"], False)):
        cfg = os.path.join(wd, f"packetw_{variant}_{len(out)}.cfg")
        vlib.write_cfg(cfg, spec="Spec", constants={"Cap": 40, "Margin": 4, "Hdr": 6, "MaxPts": 40 if deep else 30, "Protos": "<- MCProtos", "Variant": f'"{variant}"'},
                       invariants=invs, properties=props)
        r = vlib.tlc_mc("MC_PacketW", cfg, os.path.join(wd, f"packetw_{variant}_{len(out)}.out"), workers=2, timeout=900)
        ok = r["ok"] and r["violated"] is None
        out.append({"variant": variant, "checked": invs + props, "holds": ok, "states": r["distinct"]})
        if ok != expect_ok:
            raise vlib.ToolError(f"PacketWriterSpec: variant '{variant}' expected {'to hold' if expect_ok else 'to be violated'} (see {r['out']})")
        v.add(states=r["distinct"], transitions=r["generated"])
    v.cov["packet_writer_model"] = out
    log(f"[C10] PacketWriterSpec: holds as built ({out[0]['states']} states); the unguarded arithmetic violates NoPanic and termination")


def lifecycle_model(v, wd):
    """LifecycleSpec: call-order protocol of the writer objects.  Every finished object is listed once, a reader sees only
    finished objects, a top-level finalize that reports Ok leaves the complete file; a second finalize of a child that lists
    the object again (before D-32) and a finalize retried after a failure while writing (before D-35) have counterexamples."""
    out = []
    for variant, expect_ok in (("asbuilt", True), ("add_again", False), ("retry_writes", False)):
        cfg = os.path.join(wd, f"lifecycle_{variant}.cfg")
        vlib.write_cfg(cfg, spec="Spec", constants={"MaxObjects": 3, "Variant": f'"{variant}"'}, invariants=["ListedOnce", "CommittedSane", "OkMeansComplete"])
        r = vlib.tlc_mc("LifecycleSpec", cfg, os.path.join(wd, f"lifecycle_{variant}.out"), workers=2, timeout=300)
        ok = r["ok"] and r["violated"] is None
        out.append({"variant": variant, "holds": ok, "states": r["distinct"], "violated": r["violated"]})
        if ok != expect_ok:
            raise vlib.ToolError(f"LifecycleSpec: variant '{variant}' expected {'to hold' if expect_ok else 'to be violated'} (see {r['out']})")
        v.add(states=r["distinct"], transitions=r["generated"])
    v.cov["lifecycle_model"] = out
    log(f"[C10] LifecycleSpec: holds as built ({out[0]['states']} states); 'add_again' violates {out[1]['violated']}, 'retry_writes' violates {out[2]['violated']}")


def run(tier, seed, args):
    v = vlib.Verdict("C10", tier, seed, "model_checking")
    wd = vlib.workdir("C10")
    exe = vlib.build_harness()
    if args.replay:
        filecommon.validate_runs(v, wd, filecommon.split_runs(args.replay), "replay", focus=("C10",))
        return v.finish()
    packet_model(v, wd, tier == "thorough")
    lifecycle_model(v, wd)
    if tier == "thorough":
        vlib.tlaps(v, wd, "PacketLemmas", ["PacketFits"])
    ps = progs.c10_programs(seed, tier)
    filecommon.run_programs(v, wd, exe, ps, "c10", focus=("C10", "C01", "C02", "C06"), jobs=6, batch_events=400)
    v.add(states=v.cov.get("trace_events", 0), transitions=v.cov.get("trace_events", 0),
          rule="one case = one writer program probing the acceptance relation of E57Spec: every subset of each coordinate/colour/return group, invalid-state type variants, type rules, duplicates, constant and full-range records, "
               "extension names, value vectors with wrong arity/type/range at every bit phase, abandoned writers, second projection, finalize twice; every call outcome must be Ok|Err as the relation says, and completed files must decode",
          evaluations=v.cov.get("programs", 0), distinct_nontrivial=v.cov.get("traces_validated_against_impl", 0))
    v.assumptions += ["well-formedness of extension names is asserted by the program generator (names built to be valid or invalid), not computed in TLA+",
                      "duplicates, inverted ranges and all-constant prototypes are 'any' (not settled by the documented rules)"]
    return v.finish()
