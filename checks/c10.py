"""C10 — writer API is total and never stores what it cannot represent."""
import vlib, filecommon, progs


def run(tier, seed, args):
    v = vlib.Verdict("C10", tier, seed, "model_checking")
    wd = vlib.workdir("C10")
    exe = vlib.build_harness()
    if args.replay:
        filecommon.validate_runs(v, wd, filecommon.split_runs(args.replay), "replay", focus=("C10",))
        return v.finish()
    ps = progs.c10_programs(seed, tier)
    filecommon.run_programs(v, wd, exe, ps, "c10", focus=("C10", "C01", "C02", "C06"), jobs=6, batch_events=400)
    v.add(states=v.cov.get("trace_events", 0), transitions=v.cov.get("trace_events", 0),
          rule="one case = one writer program probing the acceptance relation of E57Spec: every subset of each coordinate/colour/return group, invalid-state type variants, type rules, duplicates, constant and full-range records, "
               "extension names, value vectors with wrong arity/type/range at every bit phase, abandoned writers, second projection, finalize twice; every call outcome must be Ok|Err as the relation says, and completed files must decode",
          evaluations=v.cov.get("programs", 0), distinct_nontrivial=v.cov.get("traces_validated_against_impl", 0))
    v.assumptions += ["well-formedness of extension names is asserted by the program generator (names built to be valid or invalid), not computed in TLA+",
                      "duplicates, inverted ranges and all-constant prototypes are 'any' (not settled by the documented rules)"]
    return v.finish()
