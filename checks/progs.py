"""Generators of writer/reader programs (JSON) for the harness `e57-run` command.
Programs are data: the harness executes them against the real API and records; TLC judges."""
import json, random, struct

I64MIN, I64MAX = -(1 << 63), (1 << 63) - 1


def f64(x):
    return {"bits": struct.unpack("<Q", struct.pack("<d", x))[0]}


def f32(x):
    return {"bits": struct.unpack("<I", struct.pack("<f", x))[0]}


def rec(name, t, mn=None, mx=None, scale=None, offset=None, ns=None):
    r = {"ns": ns, "name": name, "t": t, "min": mn, "max": mx}
    if t == "sint":
        r["scale"] = f64(1.0 if scale is None else scale)
        r["offset"] = f64(0.0 if offset is None else offset)
    return r


def xyz(t="single"):
    return [rec("cartesianX", t), rec("cartesianY", t), rec("cartesianZ", t)]


def xyz_sint(mn, mx, scale=0.001, offset=0.0):
    return [rec(n, "sint", mn, mx, scale, offset) for n in ("cartesianX", "cartesianY", "cartesianZ")]


def sph(t="double"):
    return [rec("sphericalRange", t), rec("sphericalAzimuth", t), rec("sphericalElevation", t)]


def rgb(mx=255):
    return [rec("colorRed", "int", 0, mx), rec("colorGreen", "int", 0, mx), rec("colorBlue", "int", 0, mx)]


def new(guid="file-guid"):
    return {"op": "new", "guid": guid}


def blob(n, salt=1):
    return {"op": "blob", "len": n, "salt": salt}


def pc(proto, n=0, seed=1, guid="pc", setters=None, end="finalize", pts=None, namesok=True):
    s = {"op": "pc", "guid": guid, "proto": proto, "setters": setters or [], "end": end, "namesok": namesok}
    s["points"] = {"list": pts} if pts is not None else {"n": n, "seed": seed}
    return s


def image(reps, guid="img", setters=None, end="finalize"):
    return {"op": "image", "guid": guid, "reps": reps, "setters": setters or [], "end": end}


def rep(kind, n, salt=2, fmt="png", mask=None, **props):
    p = {"width": props.pop("width", 4), "height": props.pop("height", 3)}
    for k, v in props.items():
        p[k] = f64(v)
    return {"kind": kind, "fmt": fmt, "len": n, "salt": salt, "mask": None if mask is None else {"len": mask, "salt": salt + 1}, "props": p}


FIN = {"op": "finalize"}


def prog(name, steps, read=None, **kw):
    p = {"name": name, "steps": steps}
    if read is not None:
        p["read"] = read
    p.update(kw)
    return p


def filler_for(start_residue, page=0):
    """blob length so that the section following it starts at logical offset page*1020 + residue
    (the first section starts at 48; a blob section occupies 16 + len + pad)."""
    target = page * 1020 + start_residue
    if target < 64:
        target += 1020
    assert target % 4 == 0
    return target - 64


def small_protos():
    """a family covering every data type, zero-width records, odd widths, negative minima"""
    return [
        xyz("single") + [rec("intensity", "int", -5, 2042)],
        xyz("double") + rgb(),
        xyz_sint(-100000, 100000) + [rec("rowIndex", "int", 7, 7), rec("columnIndex", "int", 0, 1023)],
        sph("double") + [rec("sphericalInvalidState", "int", 0, 2), rec("intensity", "single", f32(0.0), f32(1.0))],
        xyz("single") + sph("single") + [rec("cartesianInvalidState", "int", 0, 2), rec("timeStamp", "double"), rec("isTimeStampInvalid", "int", 0, 1)],
        xyz("single") + [rec("returnCount", "int", 0, 7), rec("returnIndex", "int", 0, 6), rec("intensity", "sint", 0, 4095, 0.25, -1.0),
                         rec("isIntensityInvalid", "int", 0, 1)],
        xyz("single") + [rec("intensity", "int", -1000000007, 1000000007)] + rgb(65535) + [rec("isColorInvalid", "int", 0, 1)],
    ]


def width_proto(w, neg=False):
    """integer record that needs exactly w bits (plus XYZ so the prototype is legal)"""
    if w == 0:
        mn, mx = (5, 5)
    elif w == 64:
        mn, mx = I64MIN, I64MAX
    else:
        span = (1 << w) - 1
        mn = -(span // 2) - 3 if neg else 11
        mx = mn + span
        if mx > I64MAX:
            mx = I64MAX; mn = mx - span
    return xyz("single") + [rec("intensity", "int", mn, mx)]


def c01_programs(seed, tier):
    r = random.Random(seed)
    out = []
    protos = small_protos()
    # (1) section start swept over residues modulo the 1020-byte payload
    residues = list(range(0, 1020, 4)) if tier == "thorough" else sorted(set(list(range(940, 1020, 4)) + list(range(0, 44, 4)) + r.sample(range(0, 1020, 4), 12)))
    for i, res in enumerate(residues):
        p = protos[i % len(protos)]
        n = r.choice([1, 2, 3, 7, 20, 64])
        out.append(prog(f"residue{res}", [new(), blob(filler_for(res), salt=i), pc(p, n, seed=seed * 7 + i), FIN]))
    # (2) several sections in any order, second point cloud right behind the first
    for i in range(12 if tier == "thorough" else 4):
        steps = [new(f"g{i}")]
        for j in range(r.randint(2, 5)):
            k = r.choice(["pc", "pc", "blob", "image"])
            if k == "pc":
                steps.append(pc(r.choice(protos), r.choice([0, 1, 5, 33, 200]), seed=r.randint(1, 10**6), guid=f"pc{j}"))
            elif k == "blob":
                steps.append(blob(r.choice([0, 1, 3, 4, 5, 900, 1003, 1004, 1020, 2041]), salt=j))
            else:
                steps.append(image([rep("visual", r.choice([1, 17, 1000]), salt=j, mask=r.choice([None, 9]))], guid=f"im{j}"))
        steps.append(FIN)
        out.append(prog(f"mix{i}", steps))
    # (3) packet-capacity boundaries: k * maxPointsPerPacket + {-1, 0, +1}
    packs = [(xyz("single") + [rec("intensity", "int", -5, 2042)], 107), (xyz("double") + rgb(), 216)]
    for pi, (p, bits) in enumerate(packs if tier == "thorough" else packs[:1]):
        hdr = 6 + 2 * len(p)
        mpp = ((65535 - hdr - len(p) - 500) * 8) // bits
        for d in ((-1, 0, 1) if tier == "thorough" else (0, 1)):
            out.append(prog(f"packet{pi}_{d}", [new(), pc(p, mpp + d, seed=seed + d), FIN]))
        if tier == "thorough":
            out.append(prog(f"packet{pi}_2x", [new(), blob(977), pc(p, 2 * mpp + 1, seed=seed), FIN]))
    # (3b) integers of any declared range: widths around byte/word boundaries and the widest ones
    for w in ([1, 7, 8, 9, 31, 32, 33, 57, 58, 59, 60, 61, 62, 63, 64] if tier == "quick" else range(0, 65)):
        out.append(prog(f"width{w}", [new(), blob(r.choice([0, 3, 944, 960])), pc(width_proto(w, neg=(w % 2 == 1)), 23, seed=seed * 31 + w), FIN]))
    # (3c) half-defaulted 64-bit ranges
    for i, (mn, mx) in enumerate(((0, I64MAX), (I64MIN, 5), (I64MIN + 1, I64MAX), (-1, I64MAX), (I64MIN, I64MAX - 1))):
        out.append(prog(f"halfdefault{i}", [new(), pc(xyz("single") + [rec("intensity", "int", mn, mx)], 17, seed=seed + i), FIN]))
    # (3d) non-finite and special floats, also in the very first point (the running bounds start from it)
    NAN32, NAN64 = 0x7FC00000, 0x7FF8000000000000
    specials32 = [NAN32, 0xFFC00001, 0x7F800000, 0xFF800000, 0x80000000, 0x00000001, 0x7F7FFFFF]
    for i, first in enumerate(specials32[:4] if tier == "quick" else specials32):
        pts = [[[0, first], [0, 0x3F800000], [0, 0x40000000], v_int(1)], [[0, 0x3F800000], [0, first], [0, NAN32], v_int(2)], [[0, 0x40400000], [0, 0x40800000], [0, first], v_int(3)]]
        out.append(prog(f"special_first_f32_{i}", [new(), pc(xyz("single") + [rec("intensity", "int", 0, 9)], pts=pts), FIN]))
    out.append(prog("special_first_f64", [new(), pc(xyz("double") + sph("double"), pts=[[[1, NAN64]] * 6, [[1, 0x3FF0000000000000]] * 6, [[1, 0xFFF0000000000000]] * 6]), FIN]))
    # (3e) very narrow points with a constant record: one data packet holds far more than 65536 points
    narrow = [rec("cartesianX", "sint", 0, 3, 0.5, 0.0), rec("cartesianY", "sint", 0, 3, 0.5, 0.0), rec("cartesianZ", "sint", 9, 9, 1.0, 0.0), rec("rowIndex", "int", 4, 4)]
    for n in ([70000] if tier == "quick" else [65536, 65537, 70000, 200000]):
        out.append(prog(f"narrow_{n}", [new(), pc(narrow, n, seed=seed), FIN]))
    # (3g) rejected points in between (wrong arity, wrong type, out of range): the count and the data are those of the accepted ones
    pr = xyz("single") + [rec("intensity", "int", 0, 9)]
    good = lambda k: [v_f32(float(k)), v_f32(-float(k)), v_f32(0.5), v_int(k % 10)]
    out.append(prog("rejected_between", [new(), pc(pr, pts=[good(0), good(1)[:3], good(2), [v_f32(1.0), v_f32(1.0), v_f32(1.0), v_int(77)], good(3),
                                                         [v_f32(1.0), v_f32(1.0), v_f32(1.0), v_f32(1.0)], good(4)] + [good(k) for k in range(5, 20)]), FIN]))
    # (3f) packets filled to the brim: many records per point (little room per packet) and purely bit-packed coordinates
    many = xyz("single") + [rec(f"f{i}", "int", 0, 255, ns="ext") for i in range(61)]
    out.append(prog("many_records_64x2000", [new(), {"op": "ext", "ns": "ext", "url": "http://example.com/ext"}, pc(many, 2000, seed=seed), FIN]))
    sub = xyz("single") + [rec(f"b{i}", "int", 0, 5, ns="ext") for i in range(40)]
    out.append(prog("many_subbyte_43x6000", [new(), {"op": "ext", "ns": "ext", "url": "http://example.com/ext"}, pc(sub, 6000 if tier == "quick" else 20000, seed=seed + 1), FIN]))
    packed = [rec("cartesianX", "sint", -1000000, 1000000, 0.001, 0.0), rec("cartesianY", "sint", -1000000, 1000000, 0.001, 0.0), rec("cartesianZ", "sint", -50000, 50000, 0.001, 0.0)]
    out.append(prog("packed_sint_40000", [new(), pc(packed, 40000, seed=seed + 2), FIN]))
    # (4) empty file, empty point cloud, only blobs
    out.append(prog("empty", [new(), FIN]))
    out.append(prog("emptypc", [new(), pc(protos[0], 0), FIN]))
    return out


def c12_programs(seed, tier):
    r = random.Random(seed)
    out = []
    widths = range(0, 65) if tier == "thorough" else [0, 1, 2, 3, 5, 7, 8, 9, 12, 15, 16, 17, 24, 31, 32, 33, 48, 62, 63, 64]
    for w in widths:
        for neg in (False, True):
            if w in (0, 64) and neg:
                continue
            out.append(prog(f"w{w}{'n' if neg else 'p'}", [new(), pc(width_proto(w, neg), 19 if tier == "quick" else 41, seed=seed * 100 + w), FIN]))
    # very wide points (few per packet) next to 1..3-bit records: a packet holds less than one byte of the narrow streams,
    # which nevertheless stay contiguous across packets
    vwide = xyz("double") + [rec(f"d{i}", "double", ns="ext") for i in range(1100)] + [rec("flag", "int", 0, 1, ns="ext"), rec("tri", "int", -1, 5, ns="ext"), rec("rowIndex", "int", 0, 1)]
    out.append(prog("very_wide_narrow_streams", [new(), {"op": "ext", "ns": "ext", "url": "http://example.com/ext"}, pc(vwide, 23 if tier == "quick" else 60, seed=seed + 9), FIN]))
    # wide prototype: packet boundary reached with few points, so streams are cut mid-value
    wide = xyz("double") + [rec(f"f{i}", "int", -3, (1 << (3 + 5 * i % 60)) , ns="ext") for i in range(12)]
    for n in ([700] if tier == "quick" else [700, 1500]):
        out.append(prog(f"wide{n}", [new(), {"op": "ext", "ns": "ext", "url": "http://example.com/ext"}, pc(wide, n, seed=seed), FIN]))
    return out


def c06_programs(seed, tier):
    r = random.Random(seed)
    out = []
    if tier == "thorough":
        lens = list(range(0, 2 * 1020 + 9))
    else:
        lens = sorted(set(list(range(0, 9)) + list(range(1020 - 64 - 17, 1020 - 64 + 3)) + list(range(1003, 1024)) + [2040, 2041, 2044, 3000] + r.sample(range(0, 2049), 10)))
    # several blobs per file to keep the number of files small; the first blob sweeps the start of the second
    for i in range(0, len(lens), 3):
        steps = [new()] + [blob(n, salt=i + j) for j, n in enumerate(lens[i:i + 3])] + [FIN]
        out.append(prog(f"blobs{i}", steps))
    # start residue sweep for a blob header straddling a page boundary
    residues = range(940, 1020, 4) if tier == "quick" else range(0, 1020, 4)
    for res in residues:
        out.append(prog(f"blobres{res}", [new(), blob(filler_for(res), 1), blob(r.choice([1, 5, 16, 200, 1100]), 2), blob(3, 3), FIN]))
    # data sources that deliver their bytes in pieces (pipes, chained or partly consumed readers): same blob
    for k, chunk in enumerate((1, 7, 1000, 1020, 4096, 65279, 65280, 70000)):
        out.append(prog(f"pieces_{chunk}", [new(), blob(100 + 37 * k, 1), blob(5100, 2), blob(140000 if chunk > 60000 else 3000, 3),
                                           image([rep("visual", 3067, salt=3, mask=700), rep("spherical", 2500, salt=5, mask=9, pw=0.1, ph=0.1)]), FIN], src_chunk=chunk))
    # blobs near the end of a file with a few hundred pages in front of them
    out.append(prog("late_blobs", [new(), blob(1600000, 1), blob(100, 2), image([rep("visual", 500, salt=3, mask=70)]), blob(9, 4), FIN]))
    # images of all four representations with and without mask, between point clouds
    kinds = [("visual", {}), ("pinhole", dict(focal=0.05, pw=1e-5, ph=1e-5, px=2.0, py=1.5)),
             ("spherical", dict(pw=0.01, ph=0.02)), ("cylindrical", dict(radius=2.5, py=1.0, pw=0.01, ph=0.02))]
    for ki, (kind, props) in enumerate(kinds):
        for mask in (None, 33):
            reps = [rep(kind, 900 + 41 * ki, salt=ki, fmt="jpeg" if ki % 2 else "png", mask=mask, **props)]
            if kind != "visual":
                reps.insert(0, rep("visual", 77, salt=9, mask=5))
            out.append(prog(f"image_{kind}_{mask}", [new(), pc(small_protos()[0], 3), image(reps), blob(5), pc(small_protos()[1], 2, guid="pc2"), FIN]))
    # blobs added between two finalize calls, with an XML that grows: the second XML must not land on them
    for grow in (0, 300, 1500, 4000):
        out.append(prog(f"blob_between_finalizes_{grow}", [new("g"), blob(10, 1), FIN, blob(50, 2), {"op": "coord", "v": "C" * grow}, FIN]))
        out.append(prog(f"imageblob_between_finalizes_{grow}", [new("g"), pc(small_protos()[0], 2), FIN, blob(700, 3), {"op": "coord", "v": "D" * grow},
                                                                FIN, image([rep("visual", 90, salt=4, mask=20)]), FIN]))
    return out


# ------------------------------------------------------------------------------------------ C10
def v_int(x):
    return [3, x]


def v_sint(x):
    return [2, x]


def v_f32(x):
    return [0, f32(x)["bits"]]


def v_f64(x):
    return [1, f64(x)["bits"]]


def default_value(r, k=0):
    t = r["t"]
    if t == "single":
        return v_f32(0.5 + k)
    if t == "double":
        return v_f64(0.25 + k)
    lo, hi = r["min"], r["max"]
    x = lo + (k % (hi - lo + 1)) if hi >= lo else lo
    return v_int(x) if t == "int" else v_sint(x)


def default_point(proto, k=0):
    return [default_value(r, k) for r in proto]


def c10_programs(seed, tier):
    import itertools
    r = random.Random(seed)
    out = []
    X, Y, Z = xyz("single")
    R, A, E = sph("double")
    cr, cg, cb = rgb()
    inten = rec("intensity", "int", 0, 1000)

    def one(name, proto, namesok=True, pts=None, exts=(), n=3):
        steps = [new()] + [{"op": "ext", "ns": e, "url": "http://x/" + e} for e in exts]
        steps.append(pc(proto, pts=[default_point(proto, k) for k in range(n)] if pts is None else pts, namesok=namesok))
        steps.append(FIN)
        out.append(prog(name, steps))

    # (1) every subset of each group
    for grp, members, base in (("cart", [X, Y, Z], [R, A, E]), ("sph", [R, A, E], [X, Y, Z]), ("col", [cr, cg, cb], [X, Y, Z]),
                               ("ret", [rec("returnCount", "int", 0, 3), rec("returnIndex", "int", 0, 3)], [X, Y, Z])):
        for k in range(len(members) + 1):
            for sub in itertools.combinations(members, k):
                one(f"grp_{grp}_{''.join(m['name'][-1] for m in sub) or 'none'}", list(sub) + base)
                if grp in ("cart", "sph"):
                    one(f"grp_{grp}_only_{''.join(m['name'][-1] for m in sub) or 'none'}", list(sub) + [inten])
    # (2) invalid-state records: type variants, with and without their group
    flags = [("cartesianInvalidState", [X, Y, Z], 2), ("sphericalInvalidState", [R, A, E], 2), ("isColorInvalid", [cr, cg, cb], 1),
             ("isIntensityInvalid", [inten], 1), ("isTimeStampInvalid", [rec("timeStamp", "double")], 1)]
    for fname, grp, hi in flags:
        base = [X, Y, Z] if grp[0]["name"] != "cartesianX" else []
        for label, fr in (("ok", rec(fname, "int", 0, hi)), ("hi1", rec(fname, "int", 0, hi + 1)), ("lo1", rec(fname, "int", 1, hi)),
                          ("narrow", rec(fname, "int", 0, hi - 1)), ("sint", rec(fname, "sint", 0, hi)), ("f32", rec(fname, "single"))):
            one(f"flag_{fname}_{label}", base + grp + [fr])
        one(f"flag_{fname}_nogroup", ([X, Y, Z] if grp[0]["name"] != "cartesianX" else [R, A, E]) + [rec(fname, "int", 0, hi)])
    # (3) type rules
    for nm in ("sphericalAzimuth", "sphericalElevation"):
        for t, kw in (("int", dict(mn=-3, mx=3)), ("sint", dict(mn=-3000, mx=3000, scale=0.001)), ("single", {})):
            pr = [rec(m["name"], t, **kw) if m["name"] == nm else m for m in (R, A, E)]
            one(f"type_{nm}_{t}", pr)
    for nm in ("rowIndex", "columnIndex", "returnCount", "returnIndex"):
        for t, kw in (("int", dict(mn=0, mx=9)), ("sint", dict(mn=0, mx=9)), ("double", {})):
            extra = [rec(nm, t, **kw)]
            if nm.startswith("return"):
                other = "returnIndex" if nm == "returnCount" else "returnCount"
                extra.append(rec(other, "int", 0, 9))
            one(f"type_{nm}_{t}", [X, Y, Z] + extra)
    # (4) degenerate prototypes
    one("dup_intensity", [X, Y, Z, inten, rec("intensity", "int", 0, 5)])
    one("dup_x", [X, X, Y, Z])
    # a duplicated component must not stand in for a missing one
    one("dup_x_no_z", [X, X, Y])
    one("dup_z_no_y", [X, Z, inten, Z])
    one("dup_az_no_el", [A, A, R])
    one("dup_red_no_blue", [X, Y, Z, cr, cr, cg])
    one("dup_count_no_index", [X, Y, Z, rec("returnCount", "int", 0, 3), rec("returnCount", "int", 0, 3)])
    one("all_constant", xyz_sint(5, 5))
    one("all_constant_plus_flag", xyz_sint(0, 0) + [rec("rowIndex", "int", 3, 3)])
    one("one_constant", [X, Y, Z, rec("rowIndex", "int", 3, 3)])
    one("full_range", [X, Y, Z, rec("intensity", "int", I64MIN, I64MAX)], pts=[[v_f32(1), v_f32(2), v_f32(3), v_int(x)] for x in (I64MIN, -1, 0, I64MAX)])
    one("empty_proto", [])
    # (5) extension names
    one("ext_ok", [X, Y, Z, rec("foo", "int", 0, 9, ns="ext")], exts=("ext",))
    one("ext_unregistered", [X, Y, Z, rec("foo", "int", 0, 9, ns="ext")])
    one("ext_other_registered", [X, Y, Z, rec("foo", "int", 0, 9, ns="ext")], exts=("other",))
    for bad in ("", "xmlfoo", "XMLa", "a b", "a.b", "ä", "a:b", "a<b"):
        one(f"ext_badname_{len(out)}", [X, Y, Z, rec(bad, "int", 0, 9, ns="ext")], exts=("ext",), namesok=False)
        one(f"ext_badns_{len(out)}", [X, Y, Z, rec("foo", "int", 0, 9, ns=bad)], namesok=False)
    for bad in ("", "xmlfoo", "a b", "ä"):
        one(f"ext_second_badname_{len(out)}", [X, Y, Z, rec("fine", "int", 0, 9, ns="ext"), rec(bad, "int", 0, 9, ns="ext")], exts=("ext",), namesok=False)
        one(f"ext_third_badname_{len(out)}", [X, Y, Z, rec("a", "int", 0, 9, ns="ext"), rec("b", "single", ns="ext2"), rec(bad, "int", 0, 9, ns="ext")], exts=("ext", "ext2"), namesok=False)
    # names no XML name can start with (digit, dash): written as they are they make the file ill-formed
    for bad in ("0129", "-a", "9", "-", "0ext"):
        one(f"ext_badstart_name_{len(out)}", [X, Y, Z, rec(bad, "int", 0, 9, ns="ext")], exts=("ext",), namesok=False)
        out.append(prog(f"ext_badstart_ns_{len(out)}", [new(), {"op": "ext", "ns": bad, "url": "http://x", "nameok": False},
                                                        pc([X, Y, Z, rec("foo", "int", 0, 9, ns=bad)], pts=[], namesok=False), FIN]))
    # namespace URLs that cannot be bound to a prefix (XML's own two, the empty string) or that would make extension records
    # indistinguishable from standard ones (the E57 namespace itself)
    for bad_url in ("http://www.w3.org/XML/1998/namespace", "http://www.w3.org/2000/xmlns/", "", "http://www.astm.org/COMMIT/E57/2010-e57-v1.0"):
        out.append(prog(f"regext_badurl_{len(out)}", [new(), {"op": "ext", "ns": "ext", "url": bad_url, "nameok": False},
                                                       pc([X, Y, Z, rec("intensity", "int", 0, 9, ns="ext")], pts=[], namesok=False), FIN]))
    for fine in ("a-", "_a", "a0", "_"):
        one(f"ext_finestart_{len(out)}", [X, Y, Z, rec(fine, "int", 0, 9, ns="ext")], exts=("ext",))
    # integer ranges whose maximum lies below the minimum: no value fits; accepted or not, a finalized file must open
    one("range_inverted_int", [X, Y, Z, rec("intensity", "int", 10, 0)], n=0)
    one("range_inverted_sint", [X, Y, Z, rec("intensity", "sint", 10, 0, scale=0.5, offset=0.0)], n=0)
    one("range_inverted_int_first", [rec("rowIndex", "int", 1, -1), X, Y, Z], n=0)
    one("range_inverted_int_point", [X, Y, Z, rec("intensity", "int", 10, 0)], pts=[[v_f32(1), v_f32(2), v_f32(3), v_int(5)]])
    # finalize() twice on one point cloud / image writer: the second call must not add the object once more
    out.append(prog("pc_finalize_twice", [new(), pc([X, Y, Z, inten], pts=[default_point([X, Y, Z, inten], k) for k in range(3)], end="finalize_twice"), FIN]))
    out.append(prog("pc_finalize_twice_empty", [new(), pc([X, Y, Z], pts=[], end="finalize_twice"), pc([X, Y, Z], pts=[default_point([X, Y, Z], 1)], guid="second"), FIN]))
    out.append(prog("im_finalize_twice", [new(), image([rep("visual", 20, mask=4)], end="finalize_twice"), FIN]))
    # characters XML cannot represent (also the two non-characters at the end of the BMP): refused, or the file reads back
    for i, ch in enumerate(("\x01", "\ufffe", "\uffff", "a\x0bb")):
        out.append(prog(f"nonxml_c10_{i}", [new("g"), {"op": "coord", "v": "c" + ch}, pc([X, Y, Z], pts=[default_point([X, Y, Z], 1)]), FIN], nonxml=True))
    # a caller's XML transformer that makes the XML larger than the reader accepts: refused, or the file opens
    out.append(prog("custom_big_xml_11MB", [new("g"), pc([X, Y, Z], pts=[default_point([X, Y, Z], 1)]),
                                            {"op": "finalize", "xml_splice": [[1 << 30, "<!--" + "x" * (11 << 20) + "-->"]]}]))
    one("ext_two_ok", [X, Y, Z, rec("a", "int", 0, 9, ns="ext"), rec("b", "double", ns="ext"), rec("c", "int", 0, 1, ns="ext2")], exts=("ext", "ext2"))
    one("ext_second_unregistered", [X, Y, Z, rec("a", "int", 0, 9, ns="ext"), rec("b", "int", 0, 9, ns="nope")], exts=("ext",))
    one("ext_std_name", [X, Y, Z, rec("intensity", "int", 0, 9, ns="ext")], exts=("ext",))
    for bad in ("", "xmlns", "a b", "ä"):
        out.append(prog(f"regext_bad_{len(out)}", [new(), {"op": "ext", "ns": bad, "url": "http://x", "nameok": False}, FIN]))
    out.append(prog("regext_dup", [new(), {"op": "ext", "ns": "e", "url": "http://x"}, {"op": "ext", "ns": "e", "url": "http://y"}, FIN]))
    # a section header that straddles a page boundary (every call succeeds; the file must read back)
    for res in (992, 1000, 1016):
        out.append(prog(f"straddling_section_{res}", [new(), blob(filler_for(res), 1), pc([X, Y, Z, inten], pts=[default_point([X, Y, Z, inten], k) for k in range(5)]), FIN]))
    # prototypes at the capacity of a data packet: a point that just fits, one that does not (add_pointcloud must say so:
    # nothing could ever be written), and so many records that the capacity arithmetic itself goes below zero
    def big(name, nrec, t):
        proto = [X, Y, Z] + [rec(f"f{i}", t, *((0, 1) if t == "int" else ()), ns="e") for i in range(nrec)]
        pts = [default_point(proto, k) for k in range(2)]
        out.append(prog(name, [new(), {"op": "ext", "ns": "e", "url": "http://x/e"}, pc(proto, pts=pts), FIN]))
    if tier == "thorough":
        big("big_doubles_fit", 5900, "double")      # accepted: the file is decoded in full (minutes in TLC)
    big("big_doubles_nofit", 5920, "double")
    big("big_bits_nofit", 21000, "int")
    big("big_bits_underflow", 21700, "int")
    # two prefixes bound to one URL name the same XML namespace: a record of the second prefix must not come back under the first
    out.append(prog("regext_same_url", [new(), {"op": "ext", "ns": "e1", "url": "http://x"}, {"op": "ext", "ns": "e2", "url": "http://x"},
                                        pc([X, Y, Z, rec("a", "int", 0, 9, ns="e2"), rec("b", "int", 0, 9, ns="e1")], pts=[default_point([X, Y, Z, inten, inten], k) for k in range(2)]), FIN]))
    # (6) value vectors: arity, type per position, integers around their range at every bit phase
    base = [X, Y, Z, inten]
    good = default_point(base)
    one("arity_short", base, pts=[good, good[:3], good])
    one("arity_long", base, pts=[good, good + [v_int(1)], good])
    one("arity_empty", base, pts=[good, [], good])
    for i in range(4):
        for wrong in (v_int(1), v_sint(1), v_f32(1.0), v_f64(1.0)):
            if wrong[0] == good[i][0]:
                continue
            bad = list(good); bad[i] = wrong
            one(f"type_pos{i}_kind{wrong[0]}", base, pts=[good, bad, good])
    for phase in range(8):
        # `phase` preceding 1-bit... use a (8+phase)-bit record before a 3-bit record so that it starts at bit `phase` of a byte
        lead = rec("rowIndex", "int", 0, (1 << (8 + phase)) - 1) if phase else None
        pr = [X, Y, Z] + ([lead] if lead else []) + [rec("intensity", "int", 10, 17)]
        for val in (9, 18, 255, 10 + 256, -1, I64MAX, I64MIN):
            gp = default_point(pr)
            bp = list(gp); bp[-1] = v_int(val)
            one(f"range_phase{phase}_{val}", pr, pts=[gp, bp, gp])
    # records with minimum = maximum (zero bits): type, arity and range rules apply to them as well
    cp = [X, Y, Z, rec("rowIndex", "int", 3, 3), rec("intensity", "sint", 7, 7, 0.5, 0.0)]
    gp = default_point(cp)
    for i, wrongs in ((3, (v_sint(3), v_f32(3.0), v_f64(3.0), v_int(4), v_int(2), v_int(I64MIN))), (4, (v_int(7), v_f64(7.0), v_sint(8), v_sint(6)))):
        for wi, wv in enumerate(wrongs):
            bp = list(gp); bp[i] = wv
            one(f"const_slot{i}_{wi}", cp, pts=[gp, bp, gp])
    # ranges that need 64 bits without being the full range
    for mn, mx, bads in ((-1, I64MAX, (-2, I64MIN)), (I64MIN, 0, (1, I64MAX)), (-4 * 10**18, 6 * 10**18, (-4 * 10**18 - 1, 6 * 10**18 + 1, I64MAX, I64MIN)),
                         (I64MIN + 1, I64MAX, (I64MIN,)), (I64MIN, I64MAX - 1, (I64MAX,))):
        for t, mk in (("int", v_int), ("sint", v_sint)):
            wr = [X, Y, Z, rec("intensity", t, mn, mx)]
            gp = [v_f32(1.0), v_f32(2.0), v_f32(3.0), mk(mn)]
            gp2 = [v_f32(1.0), v_f32(2.0), v_f32(3.0), mk(mx)]
            for bv in bads:
                bp = list(gp); bp[-1] = mk(bv)
                one(f"range64_{t}_{mn}_{bv}", wr, pts=[gp, bp, gp2])
    sr = [X, Y, Z, rec("intensity", "sint", -100, 100, 0.5, 1.0)]
    for val in (-101, 101, 1 << 40):
        gp = default_point(sr); bp = list(gp); bp[-1] = v_sint(val)
        one(f"range_sint_{val}", sr, pts=[gp, bp, gp])
    # (7) call orders
    p0 = small_protos()[0]
    out.append(prog("abandon_pc", [new(), pc(p0, 5, end="drop"), pc(p0, 4, guid="second"), FIN]))
    out.append(prog("abandon_pc_many", [new(), blob(10), pc(p0, 5000, end="drop"), pc(small_protos()[1], 3, guid="second"), blob(7), FIN]))
    out.append(prog("abandon_image", [new(), image([rep("visual", 50)], end="drop"), pc(p0, 2), FIN]))
    out.append(prog("second_projection", [new(), image([rep("pinhole", 10, focal=1.0, pw=1.0, ph=1.0, px=1.0, py=1.0), rep("spherical", 12, pw=1.0, ph=1.0)]), FIN]))
    out.append(prog("two_visuals", [new(), image([rep("visual", 10, salt=1), rep("visual", 12, salt=2), rep("cylindrical", 5, radius=1.0, py=1.0, pw=1.0, ph=1.0)]), FIN]))
    out.append(prog("image_without_rep", [new(), image([]), pc(p0, 2), FIN]))
    out.append(prog("finalize_twice", [new(), pc(p0, 3), FIN, FIN]))
    # content added after a finalize, then finalized again (the first XML becomes dead space); the GUID length shifts the XML end through all residues mod 4
    for g in range(4):
        out.append(prog(f"finalize_more_pc_{g}", [new("g" * (5 + g)), pc(p0, 3), FIN, pc(small_protos()[1], 5001 if g == 0 else 4, guid="later"), FIN]))
        out.append(prog(f"finalize_more_image_{g}", [new("g" * (5 + g)), image([rep("visual", 30, salt=1, mask=5)], guid="first"), pc(p0, 3), FIN,
                                                     image([rep("visual", 90, salt=4), rep("spherical", 200, salt=6, pw=0.1, ph=0.1)], guid="second"), FIN]))
        out.append(prog(f"finalize_more_blob_{g}", [new("g" * (5 + g)), blob(10, 1), FIN, blob(33, 2), image([rep("visual", 21, mask=3)]), FIN]))
    out.append(prog("empty_guid", [new(""), pc(p0, 3), FIN]))
    out.append(prog("empty_pc_guid", [new(), pc(p0, 3, guid=""), FIN]))
    return out


# ------------------------------------------------------------------------------------------ C04 / C14
SPECIAL_STRINGS = ["", " ", " \t ", "plain", "<", "&", "a<b&c>d", "]]>", "x]]>y]]>z", "\"'", "a\tb\nc", "\U0001F600\U0001D518", "<![CDATA[x]]>",
                   " pad ", "&amp;&lt;", "</name>", "%s{}\\", "äöü€", "L" * 5000,
                   # carriage returns (an XML parser turns a literal CR or CR LF into LF) and the C1 / noncharacter neighbours that ARE XML characters
                   "a\rb", "x\r\ny", "\r", "\r\n\r", "]]]>", "grid[row[idx[0]]]>0", "]]]]]]>]]>]>", "]]\r>]]]\r]>", "\x7f\x85\u2028", "\ud7ff\ue000\ufffd"]
# strings XML 1.0 cannot represent at all (not even by character references): they cannot be stored faithfully
NON_XML_STRINGS = ["\x01", "a\x00b", "tab\x0bvertical", "\x1f", "\ufffe", "x\uffffy"]
SPECIAL_FLOATS = [0.0, -0.0, 5e-324, 2.2250738585072014e-308, 1.7976931348623157e308, -1.7976931348623157e308, float("inf"), float("-inf"),
                  float("nan"), 0.1, 1e300, -123456.789, 1e-5, 1e16, 123456789012345680.0, 9.999999999999999e22]
PC_STR = ["name", "description", "sensor_vendor", "sensor_model", "sensor_serial", "sensor_hw", "sensor_sw", "sensor_fw"]
PC_FLT = ["temperature", "humidity", "pressure"]
IM_STR = ["name", "description", "pc_guid", "sensor_vendor", "sensor_model", "sensor_serial"]


def dt(t, a=True):
    return {"t": f64(t), "a": a}


def tf(q=(1.0, 0.0, 0.0, 0.0), t=(0.0, 0.0, 0.0)):
    return {"q": [f64(x) for x in q], "t": [f64(x) for x in t]}


def setter(f, v):
    return {"f": f, "v": v}


def pc_setters_all(tag, sval=None, fval=None):
    s = [setter(f, (f"{tag}-{f}" if sval is None else sval)) for f in PC_STR]
    s += [setter(f, f64((i + 1) * 1.25) if fval is None else f64(fval)) for i, f in enumerate(PC_FLT)]
    fv = 2.5 if fval is None else fval
    s += [setter("transform", tf((0.5, -0.5, 0.5, fv), (fv, 2.0, -3.0))), setter("acq_start", dt(fv, True)), setter("acq_end", dt(1e9 + 0.5, False)),
          setter("original_guids", [f"{tag}-og1", "og2" if sval is None else sval])]
    return s


def im_setters_all(tag, sval=None, fval=None):
    s = [setter(f, (f"{tag}-{f}" if sval is None else sval)) for f in IM_STR]
    fv = 7.5 if fval is None else fval
    s += [setter("transform", tf((0.0, 1.0, 0.0, 0.0), (fv, -fv, 0.0))), setter("acquisition", dt(fv, False))]
    return s


def all_reps(fv=0.5, mask=True):
    m = 17 if mask else None
    return [
        [rep("visual", 30, 1, "jpeg", mask=m, width=640, height=480)],
        [rep("pinhole", 31, 2, "png", mask=m, width=1, height=4294967295, focal=fv, pw=1e-6, ph=2e-6, px=320.5, py=fv)],
        [rep("spherical", 32, 3, "jpeg", mask=m, width=2048, height=1024, pw=fv, ph=0.003)],
        [rep("cylindrical", 33, 4, "png", mask=m, width=100, height=50, radius=fv, py=25.0, pw=0.01, ph=fv)],
        [rep("visual", 34, 5, "png", mask=None, width=8, height=8), rep("spherical", 35, 6, "png", mask=m, width=16, height=8, pw=0.1, ph=0.2)],
    ]


def c04_programs(seed, tier):
    p0 = small_protos()[0]
    p6 = small_protos()[6]
    out = []
    base_read = None
    # everything set to distinct values (swaps of fields or tags become visible), several objects interleaved
    steps = [new("file-guid-1"), {"op": "coord", "v": "coord-meta"}, {"op": "creation", "v": dt(1.25e9, True)},
             {"op": "ext", "ns": "ext1", "url": "http://example.com/one"}, {"op": "ext", "ns": "ext2", "url": "http://example.com/two"},
             pc(p0, 3, guid="pcA", setters=pc_setters_all("A")),
             image(all_reps()[1], guid="imA", setters=im_setters_all("IA")),
             pc(p6, 2, guid="pcB", setters=pc_setters_all("B")),
             image(all_reps()[4], guid="imB", setters=im_setters_all("IB")), FIN]
    out.append(prog("all_set", steps))
    out.append(prog("none_set", [new("g"), pc(p0, 1, guid="pcA"), image([rep("visual", 5)], guid="imA"), FIN]))
    # each optional field present alone
    for f in PC_STR:
        out.append(prog(f"only_pc_{f}", [new("g"), pc(p0, 1, setters=[setter(f, f"only-{f}")]), FIN]))
    for f in PC_FLT:
        out.append(prog(f"only_pc_{f}", [new("g"), pc(p0, 1, setters=[setter(f, f64(3.5))]), FIN]))
    for s in (setter("transform", tf((0.0, 0.0, 0.0, 1.0), (1.0, 2.0, 3.0))), setter("acq_start", dt(5.0)), setter("acq_end", dt(6.0, False)),
              setter("original_guids", ["a", "b", "c"]), setter("original_guids", [])):
        out.append(prog(f"only_pc_{s['f']}_{len(out)}", [new("g"), pc(p0, 1, setters=[s]), FIN]))
    # values equal to the defaults a reader would assume must still come back as set (not as absent)
    for i, t in enumerate((tf(), tf((1.0, -0.0, 0.0, -0.0), (-0.0, 0.0, 0.0)), tf((0.0, 0.0, 0.0, 0.0), (0.0, 0.0, 0.0)))):
        out.append(prog(f"default_valued_pose{i}", [new("g"), pc(p0, 1, setters=[setter("transform", t)]),
                                                    image([rep("visual", 5)], setters=[setter("transform", t)]), FIN]))
    out.append(prog("default_valued_others", [new("g"), {"op": "coord", "v": ""}, {"op": "creation", "v": dt(0.0, False)},
                                              pc(p0, 1, setters=[setter("temperature", f64(0.0)), setter("humidity", f64(0.0)), setter("pressure", f64(0.0)),
                                                                 setter("acq_start", dt(0.0, False)), setter("original_guids", [])]), FIN]))
    for f in IM_STR:
        out.append(prog(f"only_im_{f}", [new("g"), image([rep("visual", 5)], setters=[setter(f, f"only-{f}")]), FIN]))
    out.append(prog("only_coord", [new("g"), {"op": "coord", "v": "c"}, FIN]))
    # metadata set between two finalize calls while nothing else is added: the second finalize must write it
    out.append(prog("meta_after_finalize", [new("g"), pc(p0, 2), FIN, {"op": "coord", "v": "set later"}, {"op": "creation", "v": dt(7.5e8, True)}, FIN]))
    out.append(prog("meta_changed_after_finalize", [new("g"), {"op": "coord", "v": "first"}, FIN, {"op": "coord", "v": "second"}, FIN, {"op": "coord", "v": "third"}, FIN]))
    out.append(prog("ext_after_finalize", [new("g"), pc(p0, 1), FIN, {"op": "ext", "ns": "late", "url": "http://example.com/late"}, FIN]))
    # XML sections beyond what the library's own reader accepts (10 MiB): finalize must refuse, or the file must open
    out.append(prog("big_xml_3MB", [new("g"), {"op": "coord", "v": {"rep": "0123456789", "n": 300000}}, FIN], big=True))
    out.append(prog("big_xml_11MB", [new("g"), {"op": "coord", "v": {"rep": "0123456789", "n": 1100000}}, FIN], big=True))
    out.append(prog("only_creation", [new("g"), {"op": "creation", "v": dt(0.0, False)}, FIN]))
    # setters called twice and reset
    out.append(prog("set_twice_reset", [new("g"), {"op": "coord", "v": "first"}, {"op": "coord", "v": None}, {"op": "creation", "v": dt(1.0)}, {"op": "creation", "v": None},
                                        pc(p0, 1, setters=[setter("name", "a"), setter("name", "b"), setter("description", "d"), setter("description", None),
                                                           setter("temperature", f64(1.0)), setter("temperature", f64(2.0)), setter("humidity", f64(1.0)), setter("humidity", None),
                                                           setter("transform", tf()), setter("transform", None), setter("acq_start", dt(1.0)), setter("acq_start", None)]),
                                        image([rep("visual", 5)], setters=[setter("name", "x"), setter("name", "y")]), FIN]))
    # strings over the XML character domain, in every string position at once
    strings = list(SPECIAL_STRINGS)
    if tier == "thorough":
        # random strings over the whole XML character domain (all planes, the XML metacharacters over-represented)
        rs = random.Random(seed + 4)
        def xml_char():
            k = rs.random()
            if k < 0.25:
                return rs.choice("<>&'\"]\r\n\t ;#x[!-")
            if k < 0.6:
                return chr(rs.randrange(0x20, 0x7F))
            while True:
                c = rs.choice([rs.randrange(0x80, 0xD800), rs.randrange(0xE000, 0xFFFE), rs.randrange(0x10000, 0x110000)])
                return chr(c)
        for _ in range(60):
            strings.append("".join(xml_char() for _ in range(rs.choice([1, 2, 3, 8, 40, 300]))))
    for i, s in enumerate(strings):
        steps = [new(s if s.strip() else "g" + s), {"op": "coord", "v": s},
                 pc(p0, 1, guid=s, setters=pc_setters_all("S", sval=s)),
                 image([rep("visual", 5)], guid=s, setters=[setter(f, s) for f in IM_STR]), FIN]
        out.append(prog(f"string{i}", steps))
    # characters XML cannot represent, in one string position at a time: finalize must refuse (nothing else can report it)
    for i, s in enumerate(NON_XML_STRINGS):
        out.append(prog(f"nonxml_coord{i}", [new("g"), {"op": "coord", "v": s}, FIN], nonxml=True))
        out.append(prog(f"nonxml_pcname{i}", [new("g"), pc(p0, 1, setters=[setter("name", s)]), FIN], nonxml=True))
    out.append(prog("nonxml_guid", [new("g\x02"), FIN], nonxml=True))
    out.append(prog("nonxml_pcguid", [new("g"), pc(p0, 1, guid="p\x03"), FIN], nonxml=True))
    out.append(prog("nonxml_imname", [new("g"), image([rep("visual", 5)], setters=[setter("description", "d\x04")]), FIN], nonxml=True))
    out.append(prog("nonxml_exturl", [new("g"), {"op": "ext", "ns": "ext", "url": "urn:\x05"}, FIN], nonxml=True))
    # floats in every float position at once
    floats = list(SPECIAL_FLOATS)
    if tier == "thorough":
        rf = random.Random(seed + 5)
        for _ in range(60):
            x = struct.unpack("<d", struct.pack("<Q", rf.getrandbits(64)))[0]
            floats.append(x if x == x else 1.5)
    for i, x in enumerate(floats):
        steps = [new("g"), {"op": "creation", "v": dt(x, i % 2 == 0)},
                 pc(p0, 1, setters=pc_setters_all("F", fval=x)),
                 image(all_reps(fv=x)[1 + i % 3], setters=im_setters_all("F", fval=x)), FIN]
        out.append(prog(f"float{i}", steps))
    # all four representations with and without mask
    for mi, mask in enumerate((True, False)):
        for ri, reps in enumerate(all_reps(mask=mask)):
            out.append(prog(f"rep{ri}_{mi}", [new("g"), image(reps, guid=f"im{ri}"), FIN]))
    # extension urls
    for i, url in enumerate(["http://example.com/a?b=1&c=2", "urn:x<y", "quote\"inside", "plain", "http://ä.example/\U0001F600", "tab\there", "line\nfeed", "carriage\rreturn", " lead and trail "]):
        out.append(prog(f"exturl{i}", [new("g"), {"op": "ext", "ns": "ext", "url": url}, pc(p0 + [rec("foo", "int", 0, 9, ns="ext")], 2), FIN]))
    # limit overrides (complete ones are stored as given), resets
    lim_cases = [
        ("int", {"min": v_int(-7), "max": v_int(I64MAX)}), ("f32", {"min": v_f32(0.25), "max": v_f32(3.4028234663852886e38)}),
        ("f64", {"min": v_f64(-1e300), "max": v_f64(1e300)}), ("sint", {"min": v_sint(I64MIN), "max": v_sint(5)}),
        ("mixed", {"min": v_int(0), "max": v_f64(1.0)}),
    ]
    big = (1 << 53) + 1
    lim_cases += [("int_2p53", {"min": v_int(-big), "max": v_int(big)}), ("int_near_extremes", {"min": v_int(I64MIN + 1), "max": v_int(I64MAX - 1)}),
                  ("sint_2p53", {"min": v_sint(-big - 2), "max": v_sint(big + 2)}), ("int_extremes", {"min": v_int(I64MIN), "max": v_int(I64MAX)})]
    for name, l in lim_cases:
        out.append(prog(f"ilim_{name}", [new("g"), pc(p0, 2, setters=[setter("intensity_limits", l)]), FIN]))
    out.append(prog("ilim_reset", [new("g"), pc(p0, 2, setters=[setter("intensity_limits", None)]), FIN]))
    out.append(prog("ilim_default_float_undeclared", [new("g"), pc(xyz() + [rec("intensity", "single")], 2), FIN]))
    out.append(prog("ilim_default_float_declared", [new("g"), pc(xyz() + [rec("intensity", "single", f32(0.0), f32(1.0))], 2), FIN]))
    out.append(prog("ilim_default_sint", [new("g"), pc(xyz() + [rec("intensity", "sint", -5, 500, 0.001, 2.0)], 2), FIN]))
    out.append(prog("clim_big", [new("g"), pc(p6, 2, setters=[setter("color_limits", {"rmin": v_int(-big), "rmax": v_int(big), "gmin": v_int(I64MIN + 1), "gmax": v_int(I64MAX - 1),
                                                                                      "bmin": v_int(-(1 << 62) - 1), "bmax": v_int((1 << 62) + 1)})]), FIN]))
    cl = {"rmin": v_int(0), "rmax": v_int(255), "gmin": v_int(1), "gmax": v_int(254), "bmin": v_int(2), "bmax": v_int(253)}
    out.append(prog("clim_override", [new("g"), pc(p6, 2, setters=[setter("color_limits", cl)]), FIN]))
    out.append(prog("clim_reset", [new("g"), pc(p6, 2, setters=[setter("color_limits", None)]), FIN]))
    out.append(prog("clim_default", [new("g"), pc(p6, 2), FIN]))
    out.append(prog("clim_default_float", [new("g"), pc(xyz() + [rec(n, "single", f32(0.0), f32(1.0)) for n in ("colorRed", "colorGreen", "colorBlue")], 2), FIN]))
    return out


def c14_programs(seed, tier):
    r = random.Random(seed)
    out = []
    coord_types = [("single", lambda n: rec(n, "single")), ("double", lambda n: rec(n, "double")),
                   ("sint", lambda n: rec(n, "sint", -(1 << 20), 1 << 20, 0.0009765625, -8.0)),
                   ("sint_neg", lambda n: rec(n, "sint", -1000, 1000, -0.25, 0.5))]
    C = ["cartesianX", "cartesianY", "cartesianZ"]
    Sn = ["sphericalRange", "sphericalAzimuth", "sphericalElevation"]

    def value_for(rc, x):
        t = rc["t"]
        if t == "single":
            return v_f32(x)
        if t == "double":
            return v_f64(x)
        if t == "sint":
            return v_sint(int(x))
        return v_int(int(x))

    def seqs(n):
        base = {
            "empty": [], "single": [3.0], "constant": [2.5] * 4,
            "up": [float(i) for i in range(-3, 4)], "down": [float(i) for i in range(3, -4, -1)],
            "mixed": [0.0, -0.0, 5.0, -7.5, 0.25, -0.25, 100.0, -100.0, 3.0],
            "extremes": [1e30, -1e30, 1e-30, -1e-30, 0.0],
        }
        return base

    idx = [rec("rowIndex", "int", -5, 1000), rec("columnIndex", "int", 0, 65535), rec("returnIndex", "int", 0, 7), rec("returnCount", "int", 0, 7)]
    groups = [
        ("cart", C, []), ("sph", Sn, []), ("both", C + Sn, []), ("cart_idx", C, idx), ("cart_rowonly", C, idx[:1]),
        ("cart_return", C, idx[2:]), ("sph_col", Sn, idx[1:2]),
    ]
    for gname, names, extra in groups:
        for tname, mk in coord_types:
            if "sph" in gname and tname.startswith("sint") and False:
                continue
            proto = [mk(n) for n in names] + extra + [rec("intensity", "int", 0, 9)]
            for sname, seq in seqs(0).items():
                if tier == "quick" and (tname == "sint_neg" and sname not in ("mixed", "up")):
                    continue
                pts = []
                for k, x in enumerate(seq):
                    p = []
                    for ci, rc in enumerate(proto):
                        if rc["name"] in names:
                            # distinct extremes per axis at distinct indices
                            y = seq[(k + ci) % len(seq)] * (1 + ci)
                            if rc["t"] == "sint":
                                y = max(min(int(y), rc["max"]), rc["min"])
                            p.append(value_for(rc, y))
                        elif rc["t"] == "int":
                            span = rc["max"] - rc["min"]
                            p.append(v_int(rc["min"] + (k * 7 + ci * 3) % (span + 1)))
                    pts.append(p)
                out.append(prog(f"b_{gname}_{tname}_{sname}", [new("g"), pc(proto, pts=pts), FIN], reals=True))
    if tier == "thorough":
        # arbitrary finite floats (any exponent, subnormals, +-0) and arbitrary scaled integers with awkward scales: the extremes
        # sit at random indices; every coordinate type, with index records
        def rnd_double():
            while True:
                x = struct.unpack("<d", struct.pack("<Q", r.getrandbits(64)))[0]
                if x == x and abs(x) != float("inf"):
                    return x
        def rnd_single():
            while True:
                x = struct.unpack("<f", struct.pack("<I", r.getrandbits(32)))[0]
                if x == x and abs(x) != float("inf"):
                    return x
        for k in range(40):
            kind = ("double", "single", "sint")[k % 3]
            if kind == "sint":
                sc, off = r.choice([(0.001, 0.0), (1e-5, -3.25), (3.0, 1e6), (-0.7, 0.1), (1e300, 0.0), (5e-324, 0.0)])
                lo, hi = r.choice([(-100, 100), (0, 1 << 40), (-(1 << 62), 1 << 62)])
                mk = lambda n, sc=sc, off=off, lo=lo, hi=hi: rec(n, "sint", lo, hi, sc, off)
                val = lambda lo=lo, hi=hi: v_sint(r.randint(lo, hi))
            elif kind == "double":
                mk = lambda n: rec(n, "double"); val = lambda: v_f64(r.choice([rnd_double(), r.uniform(-1e3, 1e3), 0.0, -0.0]))
            else:
                mk = lambda n: rec(n, "single"); val = lambda: v_f32(r.choice([rnd_single(), r.uniform(-1e3, 1e3), 0.0, -0.0]))
            names = (C, Sn, C + Sn)[k % 3 if kind != "sint" else 0]
            proto = [mk(n) for n in names] + idx[:3]
            pts = [[val() for _ in names] + [v_int(r.randint(-5, 1000)), v_int(r.randint(0, 65535)), v_int(r.randint(0, 7))] for _ in range(r.choice([1, 2, 17, 120]))]
            out.append(prog(f"b_random_{kind}_{k}", [new("g"), pc(proto, pts=pts), FIN], reals=True))
    # constant records (minimum = maximum, zero bits per point) take part in the bounds like any other
    for tname, mk in coord_types[:2]:
        for cname in C + Sn:
            proto = [rec(n, "sint", 3, 3, 0.5, 1.0) if n == cname else mk(n) for n in C + Sn] + [rec("rowIndex", "int", 7, 7), rec("columnIndex", "int", 0, 9), rec("returnIndex", "int", 0, 0), rec("returnCount", "int", 1, 1)]
            pts = []
            for k in range(4):
                p = []
                for ci, rc in enumerate(proto):
                    if rc["min"] is not None and rc["min"] == rc.get("max") and rc["t"] in ("int", "sint"):
                        p.append(v_sint(rc["min"]) if rc["t"] == "sint" else v_int(rc["min"]))
                    elif rc["t"] == "int":
                        p.append(v_int(k * 2))
                    else:
                        p.append(value_for(rc, float(k - 1) * (1 + ci)))
                pts.append(p)
            out.append(prog(f"b_constant_{cname}_{tname}", [new("g"), pc(proto, pts=pts), FIN], reals=True))
    # index values beyond 2^53 (not representable as f64) and at the ends of i64
    big_idx = [rec("rowIndex", "int", I64MIN, I64MAX), rec("columnIndex", "int", 0, I64MAX), rec("returnIndex", "int", -(1 << 60), 1 << 60), rec("returnCount", "int", 0, 3)]
    for k, rows in enumerate(([(1 << 53) + 1, (1 << 53) - 1, 5], [I64MAX, I64MAX - 1, 0], [I64MIN, I64MIN + 1, -1], [-(1 << 53) - 1, 7, (1 << 62) + 3])):
        pts = [[v_f32(float(j)), v_f32(0.0), v_f32(1.0), v_int(rw), v_int(abs(rw) // 2 if rw != I64MIN else I64MAX), v_int(max(min(rw, 1 << 60), -(1 << 60))), v_int(j % 4)] for j, rw in enumerate(rows)]
        out.append(prog(f"b_big_index_{k}", [new("g"), pc([rec(n, "single") for n in C] + big_idx, pts=pts), FIN], reals=True))
    # default colour limits follow each channel's own type (different types and ranges per channel)
    for k, chans in enumerate(([rec("colorRed", "int", 0, 255), rec("colorGreen", "int", 0, 1023), rec("colorBlue", "int", 2, 17)],
                               [rec("colorRed", "int", 0, 7), rec("colorGreen", "single", f32(0.0), f32(1.0)), rec("colorBlue", "sint", 0, 16, 0.25, 1.0)],
                               [rec("colorRed", "double", f64(0.0), f64(2.0)), rec("colorGreen", "int", 0, 15), rec("colorBlue", "single")])):
        proto = [rec(n, "single") for n in C] + chans
        pts = [[v_f32(1.0), v_f32(2.0), v_f32(3.0)] + [default_value(c, j) for c in chans] for j in range(3)]
        out.append(prog(f"b_colour_types_{k}", [new("g"), pc(proto, pts=pts), FIN], reals=True))
    # extension records in front of, between and behind the coordinate and index records do not shift anything
    for k, order in enumerate(((0, 1, 2), (1, 0, 2), (2, 1, 0))):
        ext = [rec("nx", "single", ns="ext"), rec("klass", "int", 0, 255, ns="ext"), rec("w", "double", ns="ext")]
        std = [rec(n, "double") for n in C] + idx[:2]
        proto = [ext[order[0]]] + std[:2] + [ext[order[1]]] + std[2:4] + [ext[order[2]]] + std[4:]
        pts = []
        for j in range(5):
            pts.append([default_value(rc, j) if rc["ns"] else (v_f64((j - 2) * (1.5 + i)) if rc["t"] == "double" else v_int(j * 3 + i)) for i, rc in enumerate(proto)])
        out.append(prog(f"b_ext_in_front_{k}", [new("g"), {"op": "ext", "ns": "ext", "url": "urn:ext"}, pc(proto, pts=pts), FIN], reals=True))
    # rejected points leave no trace in the bounds: the offending value sits in a LATER record than the coordinates / indices
    for tname, mk in coord_types[:2] + coord_types[3:]:
        proto = [mk(n) for n in C + Sn] + idx[:2] + [rec("intensity", "int", 0, 9)]
        def pt(x, row, inten, proto=proto):
            vals = []
            for ci, rc in enumerate(proto[:6]):
                vals.append(value_for(rc, x * (1 + ci)))
            return vals + [v_int(row), v_int(row % 7), inten]
        good = [pt(1.0, 3, v_int(1)), pt(-2.0, 4, v_int(2)), pt(0.5, 5, v_int(3))]
        bad_range = pt(100.0, 900, v_int(99))          # intensity outside 0..9
        bad_low = pt(-100.0, -5, v_int(-1))
        bad_type = pt(77.0, 800, v_f32(1.0))           # wrong type in the last record
        bad_arity = pt(55.0, 700, v_int(1))[:-1]
        for bname, seq in (("first", [bad_range] + good), ("middle", good[:1] + [bad_range, bad_low, bad_type] + good[1:]), ("last", good + [bad_type, bad_low]),
                           ("only", [bad_range, bad_type]), ("arity", good[:2] + [bad_arity] + good[2:])):
            out.append(prog(f"b_rejected_{bname}_{tname}", [new("g"), pc(proto, pts=seq), FIN], reals=True))
    # a NaN coordinate in the MIDDLE of the stream (an invalid measurement) is no real value: the bounds are those of the
    # other points, all of which lie within them (a NaN in the first point is outside the claim, see DESIGN 12.7)
    NANB = 0x7FF8000000000000
    for k, seq in enumerate(([-3.0, 7.0, None, 2.0, 4.0], [1.0, None, None, -8.0, 0.5, None, 9.0], [5.0, None, 5.0])):
        pts = [[[1, NANB] if x is None else v_f64(x), [1, NANB] if x is None else v_f64(-x), v_f64(1.0 + j)] for j, x in enumerate(seq)]
        out.append(prog(f"b_nan_middle_{k}", [new("g"), pc(xyz("double"), pts=pts), FIN], reals=True))
    return out


# ------------------------------------------------------------------------------------------ C05 / C13
import math
HALF_PI = math.pi / 2


def quat_matrix(q):
    w, x, y, z = q
    m = [[w * w + x * x - y * y - z * z, 2 * (x * y - w * z), 2 * (x * z + w * y)],
         [2 * (x * y + w * z), w * w - x * x + y * y - z * z, 2 * (y * z - w * x)],
         [2 * (x * z - w * y), 2 * (y * z + w * x), w * w - x * x - y * y + z * z]]
    return [[int(round(v)) for v in row] for row in m]


S2 = math.sqrt(0.5)
POSES = [None,
         ((1.0, 0.0, 0.0, 0.0), (0.0, 0.0, 0.0)),
         ((S2, 0.0, 0.0, S2), (1.5, -2.25, 3.0)),
         ((0.0, 1.0, 0.0, 0.0), (0.0, 0.0, -8.0)),
         ((0.5, 0.5, 0.5, 0.5), (-1.0, 0.5, 0.25))]


def pose_parts(pose):
    if pose is None:
        return [], None
    q, t = pose
    return [setter("transform", tf(q, t))], {"m": quat_matrix(q), "t": [int(round(v * 1024)) for v in t]}


def coord_rec(name, t):
    if t == "sint":
        return rec(name, "sint", -(1 << 20), 1 << 20, 1.0 / 1024, 0.5)
    return rec(name, t)


def coord_val(rc, x):
    if rc["t"] == "single":
        return v_f32(x)
    if rc["t"] == "double":
        return v_f64(x)
    return v_sint(int(round((x - 0.5) * 1024)))


def angle_rec(name, t):
    if t == "sint":
        return {"ns": None, "name": name, "t": "sint", "min": -8, "max": 8, "scale": f64(HALF_PI), "offset": f64(0.0)}
    return rec(name, t)


def angle_val(rc, k):
    if rc["t"] == "single":
        return v_f32(k * HALF_PI)
    if rc["t"] == "double":
        return v_f64(k * HALF_PI)
    return v_sint(k)


LATTICE_PTS = [(1.0, 0.0, 0.0), (-2.5, 0.0, 0.0), (0.0, 3.0, 0.0), (0.0, -0.25, 0.0), (0.0, 0.0, 7.0), (0.0, 0.0, -1.0),
               (1.0, 2.0, 3.0), (-4.5, 0.125, 9.0), (100.0, -200.0, 0.5)]
SPH_PTS = [(2.0, 0, 0), (3.5, 1, 0), (1.0, 2, 0), (4.0, -1, 0), (5.0, 0, 1), (6.0, 0, -1), (0.5, 3, 0), (7.0, 1, 1), (0.0, 0, 0)]


def c05_programs(seed, tier):
    out = []
    r = random.Random(seed)
    ctypes = ["single", "double", "sint"] if tier == "thorough" else ["single", "sint"]
    atypes = ["double", "single", "sint"] if tier == "thorough" else ["double"]
    variants = []
    for has_c in (True, False):
        for has_s in (True, False):
            if not (has_c or has_s):
                continue
            for cflag in ((True, False) if has_c else (False,)):
                for sflag in ((True, False) if has_s else (False,)):
                    variants.append((has_c, has_s, cflag, sflag))
    k = 0
    for (has_c, has_s, cflag, sflag) in variants:
        for ct in ctypes:
            for at in atypes:
                if not has_c and ct != ctypes[0]:
                    continue
                if not has_s and at != atypes[0]:
                    continue
                pose = POSES[k % len(POSES)]
                extra = k % 4   # colour/intensity/row-column combinations
                k += 1
                proto = []
                if has_c:
                    proto += [coord_rec(n, ct) for n in ("cartesianX", "cartesianY", "cartesianZ")]
                    if cflag:
                        proto.append(rec("cartesianInvalidState", "int", 0, 2))
                if has_s:
                    proto += [coord_rec("sphericalRange", ct if ct != "sint" else "double"), angle_rec("sphericalAzimuth", at), angle_rec("sphericalElevation", at)]
                    if sflag:
                        proto.append(rec("sphericalInvalidState", "int", 0, 2))
                if extra in (1, 3):
                    # the three channels have different ranges; with extra == 3 the limits are removed (type ranges apply)
                    proto += [rec("colorRed", "int", 0, 255), rec("colorGreen", "int", 0, 63), rec("colorBlue", "int", 0, 1023), rec("isColorInvalid", "int", 0, 1)]
                if extra in (2, 3):
                    proto += [rec("intensity", "int", 0, 1000), rec("isIntensityInvalid", "int", 0, 1)]
                if extra in (0, 3):
                    proto += [rec("rowIndex", "int", 0, 100), rec("columnIndex", "int", -5, 5)]
                pts = []
                states = [(a, b) for a in (0, 1, 2) for b in (0, 1, 2)]
                for i, (cs, ss) in enumerate(states if (cflag or sflag) else states[:1] * 3):
                    for j in range(3 if tier == "thorough" else 2):
                        c = LATTICE_PTS[(i + 3 * j) % len(LATTICE_PTS)]
                        s = SPH_PTS[(i * 2 + j) % len(SPH_PTS)]
                        p = []
                        for rc in proto:
                            n = rc["name"]
                            if n.startswith("cartesian") and n != "cartesianInvalidState":
                                p.append(coord_val(rc, c["XYZ".index(n[-1])]))
                            elif n == "cartesianInvalidState":
                                p.append(v_int(cs))
                            elif n == "sphericalRange":
                                p.append(coord_val(rc, s[0]) if rc["t"] != "sint" else v_sint(int((s[0] - 0.5) * 1024)))
                            elif n == "sphericalAzimuth":
                                p.append(angle_val(rc, s[1]))
                            elif n == "sphericalElevation":
                                p.append(angle_val(rc, s[2]))
                            elif n == "sphericalInvalidState":
                                p.append(v_int(ss))
                            elif n.startswith("color"):
                                p.append(v_int((i * 37 + j * 11 + len(p)) % (rc["max"] + 1)))
                            elif n == "isColorInvalid":
                                p.append(v_int((i + j) % 2))
                            elif n == "intensity":
                                p.append(v_int((i * 111 + j * 7) % 1001))
                            elif n == "isIntensityInvalid":
                                p.append(v_int((i // 2 + j) % 2))
                            elif n == "rowIndex":
                                p.append(v_int((i * 3 + j) % 101))
                            elif n == "columnIndex":
                                p.append(v_int((i + j) % 11 - 5))
                        pts.append(p)
                sets, pm = pose_parts(pose)
                if extra == 3:
                    sets = sets + [setter("color_limits", None)]
                step = pc(proto, pts=pts, setters=sets)
                step["pose_matrix"] = pm
                out.append(prog(f"view_c{int(has_c)}{int(cflag)}_s{int(has_s)}{int(sflag)}_{ct}_{at}_p{k % len(POSES)}_x{extra}", [new(), step, FIN]))
    # several packets: the view must not depend on packet boundaries (a value may straddle packets)
    proto = [coord_rec(n, "double") for n in ("cartesianX", "cartesianY", "cartesianZ")] + [rec("intensity", "int", 0, 7)]
    n = 2800 if tier == "quick" else 6000
    pts = [[v_f64((i % 64) * 0.25), v_f64(-(i % 5)), v_f64(1.0), v_int(i % 8)] for i in range(n)]
    sets, pm = pose_parts(POSES[2])
    step = pc(proto, pts=pts, setters=sets); step["pose_matrix"] = pm
    out.append(prog("view_multi_packet", [new(), step, FIN], opts=[[True, True, False, True, True, True], [False] * 6]))
    # rotations about axes that are not coordinate axes: quaternions with integer components (a, b, c, d) of squared norm n
    # have the rotation matrix M / n with M integer; coordinates are multiples of n, so every image is on the lattice
    def int_quat_matrix(q):
        a, b, c, d = q
        return [[a * a + b * b - c * c - d * d, 2 * (b * c - a * d), 2 * (b * d + a * c)],
                [2 * (b * c + a * d), a * a - b * b + c * c - d * d, 2 * (c * d - a * b)],
                [2 * (b * d - a * c), 2 * (c * d + a * b), a * a - b * b - c * c + d * d]]
    for k, (q, tr) in enumerate((((1, 1, 1, 0), (0.0, 0.0, 0.0)), ((1, 0, 1, 1), (1.5, -2.25, 3.0)), ((2, 1, 1, 1), (0.0, 0.5, 0.0)), ((1, 2, 3, 4), (-1.0, 0.0, 8.0)),
                                ((1, 1, 0, 1), (0.0, 0.0, 0.0)), ((0, 1, 2, 2), (4.0, 4.0, 4.0)), ((3, -1, 2, 0), (0.25, 0.0, 0.0)), ((1, -1, 1, -2), (0.0, 0.0, 0.0)))):
        nq = sum(x * x for x in q)
        nrm = math.sqrt(nq)
        proto = [coord_rec(nm, "double") for nm in ("cartesianX", "cartesianY", "cartesianZ")] + [rec("intensity", "int", 0, 7)]
        base = [(1, 0, 0), (0, 1, 0), (0, 0, 1), (1, 2, 3), (-1, 5, -7), (4, 4, 4), (0, -3, 2), (7, 0, -1)]
        pts = [[v_f64(float(nq * x)), v_f64(float(nq * y)), v_f64(float(nq * z)), v_int(i % 8)] for i, (x, y, z) in enumerate(base)]
        step = pc(proto, pts=pts, setters=[setter("transform", tf(tuple(x / nrm for x in q), tr))])
        step["pose_matrix"] = {"m": int_quat_matrix(q), "den": nq, "t": [int(round(v * 1024)) for v in tr]}
        out.append(prog(f"view_general_rotation_{k}", [new(), step, FIN], opts=[[True, True, False, True, True, True], [True, False, True, False, False, False], [False] * 6]))
    # extension records whose local names equal standard names, behind and in front of the standard records: the view is
    # made of the standard records only
    for k, place in enumerate(("behind", "front", "mixed", "only_ext_intensity")):
        std = [coord_rec(nm, "double") for nm in ("cartesianX", "cartesianY", "cartesianZ")] + [rec("intensity", "int", 0, 7), rec("rowIndex", "int", 0, 100), rec("columnIndex", "int", 0, 100)]
        ext = [rec("intensity", "int", 0, 7, ns="fx"), rec("cartesianX", "double", ns="fx"), rec("rowIndex", "int", 0, 100, ns="fx"), rec("colorRed", "int", 0, 255, ns="fx"), rec("cartesianInvalidState", "int", 0, 2, ns="fx")]
        if place == "behind":
            proto = std + ext
        elif place == "front":
            proto = ext + std
        elif place == "mixed":
            proto = [ext[0], std[0], ext[1], std[1], std[2], ext[2], std[3], ext[3], std[4], std[5], ext[4]]
        else:
            proto = std[:3] + std[4:] + ext[:1]
        pts = []
        for i in range(6):
            pt = []
            for rc in proto:
                if rc["ns"]:
                    pt.append(v_f64(100.0 + i) if rc["t"] == "double" else v_int({"intensity": 7 - i, "rowIndex": 90 + i, "colorRed": 200 + i, "cartesianInvalidState": 2}[rc["name"]]))
                else:
                    pt.append(v_f64(float(i + 1) * {"cartesianX": 1.0, "cartesianY": -2.0, "cartesianZ": 0.5}[rc["name"]]) if rc["t"] == "double" else v_int({"intensity": i, "rowIndex": i, "columnIndex": 2 * i}[rc["name"]]))
            pts.append(pt)
        step = pc(proto, pts=pts); step["pose_matrix"] = None
        out.append(prog(f"view_ext_standard_names_{place}", [new(), {"op": "ext", "ns": "fx", "url": "urn:fx"}, step, FIN], opts=[[True, True, False, True, True, True], [False] * 6, [True, True, True, True, False, False]]))
    # wide points: fewer than a thousand points per data packet
    wide = [coord_rec(n, "double") for n in ("cartesianX", "cartesianY", "cartesianZ")] + [rec("timeStamp", "double")] + \
           [rec(f"e{i}", "double", ns="ext") for i in range(5)] + [rec("intensity", "int", 0, 7)]
    n = 2300 if tier == "quick" else 4000
    pts = [[v_f64((i % 64) * 0.25), v_f64(-(i % 5)), v_f64(1.0), v_f64(i * 0.5)] + [v_f64(float(i + j)) for j in range(5)] + [v_int(i % 8)] for i in range(n)]
    step = pc(wide, pts=pts)
    step["pose_matrix"] = None
    out.append(prog("view_multi_packet_wide", [new(), {"op": "ext", "ns": "ext", "url": "urn:ext"}, step, FIN], opts=[[True, True, False, True, True, True], [False] * 6]))
    # foreign files with CONSTANT invalid-state records (minimum = maximum, no bits per point) whose constant is not 0: the
    # writer insists on the full 0..2 / 0..1 range, so the record is written as a constant rowIndex and renamed in the XML
    cx, cy, cz = (coord_rec(n, "double") for n in ("cartesianX", "cartesianY", "cartesianZ"))
    three = [[v_f64(1.0 + k), v_f64(2.0), v_f64(-0.5 * k)] for k in range(3)]
    def renamed(name, base, const, tag):
        proto = base + [rec("rowIndex", "int", const, const)]
        step = pc(proto, pts=[p + [v_int(const)] for p in (three if len(base) == 3 else [q + [v_int(5)] * (len(base) - 3) for q in three])])
        step["pose_matrix"] = None
        fin = {"op": "finalize", "xml_replace": [["<rowIndex ", f"<{tag} "], ["</rowIndex>", f"</{tag}>"]]}
        out.append(prog(name, [new(), step, fin], opts=[[True, True, False, True, True, True], [False] * 6, [True, True, True, False, False, False]]))
    for const in (0, 1, 2):
        renamed(f"view_constant_cartesian_state_{const}", [cx, cy, cz], const, "cartesianInvalidState")
    for const in (0, 1):
        renamed(f"view_constant_color_state_{const}", [cx, cy, cz] + rgb(), const, "isColorInvalid")
        renamed(f"view_constant_intensity_state_{const}", [cx, cy, cz, rec("intensity", "int", 0, 9)], const, "isIntensityInvalid")
    return out


def c13_programs(seed, tier):
    out = []
    XYZ = xyz("single")

    def sweep(name, irec, values, limits="default", color=False, xml_replace=None, opts=None):
        names = ["colorRed", "colorGreen", "colorBlue"] if color else ["intensity"]
        proto = XYZ + [dict(irec, name=n) for n in names]
        pts = [[v_f32(1.0), v_f32(0.0), v_f32(0.0)] + [v] * len(names) for v in values]
        sets = []
        if limits != "default":
            sets.append(setter("color_limits" if color else "intensity_limits", limits))
        fin = {"op": "finalize"} if xml_replace is None else {"op": "finalize", "xml_replace": xml_replace}
        out.append(prog(name, [new(), pc(proto, pts=pts, setters=sets), fin],
                        opts=opts or [[False, False, False, False, True, True], [False, False, False, True, False, False], [True, True, True, True, True, False]]))

    small_int = rec("intensity", "int", -3, 12)
    ints = [v_int(i) for i in range(-3, 13)]
    sweep("int_default", small_int, ints)
    sweep("int_color_default", small_int, ints, color=True)
    sweep("int_limits_narrow", small_int, ints, limits={"min": v_int(0), "max": v_int(8)})
    sweep("int_limits_float_on_int", small_int, ints, limits={"min": v_f64(-1.0), "max": v_f64(5.5)})
    sweep("int_limits_single_on_int", small_int, ints, limits={"min": v_f32(0.25), "max": v_f32(10.0)})
    sweep("int_limits_equal", small_int, ints, limits={"min": v_int(5), "max": v_int(5)})
    sweep("int_limits_extreme", small_int, ints, limits={"min": v_int(I64MIN), "max": v_int(I64MAX)})
    sweep("int_limits_reset", small_int, ints, limits=None)
    sweep("int_limits_mixed_kinds", small_int, ints, limits={"min": v_int(0), "max": v_f64(8.0)})
    sweep("int_limits_partial", small_int, ints, xml_replace=[['<intensityMaximum type="Integer">12</intensityMaximum>\n', '']])
    sweep("int_degenerate_type", rec("intensity", "int", 7, 7), [v_int(7)] * 3)
    sweep("int_degenerate_type_color", rec("intensity", "int", 7, 7), [v_int(7)] * 3, color=True)
    sweep("int_4095", rec("intensity", "int", 0, 4095), [v_int(i) for i in (0, 1, 2, 2047, 2048, 4094, 4095)])
    sweep("int_u16", rec("intensity", "int", 0, 65535), [v_int(i) for i in (0, 1, 32767, 32768, 65534, 65535)])
    sweep("int_full_range", rec("intensity", "int", I64MIN, I64MAX), [v_int(i) for i in (I64MIN, -1, 0, 1, I64MAX)])
    sint = rec("intensity", "sint", -8, 24, 0.25, 1.5)
    sweep("sint_default", sint, [v_sint(i) for i in range(-8, 25)])
    sweep("sint_neg_offset", rec("intensity", "sint", 0, 40, 0.5, -5.0), [v_sint(i) for i in range(0, 41, 3)])
    sweep("sint_color", sint, [v_sint(i) for i in range(-8, 25, 2)], color=True)
    # a negative scale (legal) maps the declared minimum onto the upper end of the real range
    sint_neg = rec("intensity", "sint", -8, 24, -0.25, 1.5)
    sweep("sint_neg_scale", sint_neg, [v_sint(i) for i in range(-8, 25)])
    sweep("sint_neg_scale_color", sint_neg, [v_sint(i) for i in range(-8, 25, 2)], color=True)
    sweep("sint_neg_scale_limits", sint_neg, [v_sint(i) for i in range(-8, 25, 3)], limits={"min": v_f64(-2.0), "max": v_f64(2.0)})
    sweep("sint_limits_float", sint, [v_sint(i) for i in range(-8, 25)], limits={"min": v_f64(0.0), "max": v_f64(4.0)})
    fl = [v_f32(x * 0.25) for x in range(-2, 7)]
    sweep("single_unit", rec("intensity", "single", f32(0.0), f32(1.0)), fl)
    sweep("single_unit_color", rec("intensity", "single", f32(0.0), f32(1.0)), fl, color=True)
    sweep("single_undeclared", rec("intensity", "single"), fl + [v_f32(3.0e38), v_f32(-3.0e38)])
    sweep("single_undeclared_limits", rec("intensity", "single"), fl, limits={"min": v_f32(0.0), "max": v_f32(1.0)})
    dl = [v_f64(x * 0.25) for x in range(-8, 21)]
    sweep("double_declared", rec("intensity", "double", f64(-1.0), f64(4.0)), dl)
    sweep("double_undeclared", rec("intensity", "double"), dl + [v_f64(1.7e308), v_f64(-1.7e308)])
    sweep("double_undeclared_max", rec("intensity", "double"), [v_f64(0.0), v_f64(1.7976931348623157e308)])
    sweep("double_limits_equal", rec("intensity", "double"), dl, limits={"min": v_f64(2.0), "max": v_f64(2.0)})
    sweep("double_limits_extreme", rec("intensity", "double", f64(0.0), f64(1.0)), dl, limits={"min": v_f64(-1.7976931348623157e308), "max": v_f64(1.7976931348623157e308)})
    if tier == "thorough":
        # every value of every range width up to 12 bits at several offsets; random lattice limits around random lattice values
        r = random.Random(seed)
        for w in (1, 2, 3, 5, 7, 15, 100, 255, 1000, 1023, 4095):
            for lo in (0, -w // 2, 7, -1000):
                vals = list(range(lo, lo + w + 1))
                if len(vals) > 600:
                    vals = vals[:200] + vals[len(vals) // 2 - 100:len(vals) // 2 + 100] + vals[-200:]
                sweep(f"int_all_{w}_{lo}", rec("intensity", "int", lo, lo + w), [v_int(x) for x in vals])
                sweep(f"sint_all_{w}_{lo}", rec("intensity", "sint", lo, lo + w, 0.25, 0.5), [v_sint(x) for x in vals], color=(w % 2 == 0))
        for k in range(60):
            a = r.randrange(-4000, 4000) / 4.0
            wq = r.choice([1, 2, 3, 10, 100, 1000, 20000]) / 4.0
            vals = sorted({a + r.randrange(-8, int(wq * 4) + 9) / 4.0 for _ in range(40)} | {a, a + wq})
            sweep(f"double_rand_limits_{k}", rec("intensity", "double"), [v_f64(x) for x in vals], limits={"min": v_f64(a), "max": v_f64(a + wq)}, color=(k % 3 == 0) and False)
            sweep(f"single_rand_declared_{k}", rec("intensity", "single", f32(a), f32(a + wq)), [v_f32(x) for x in vals])
    # limits at the edges of the float format: infinite, inverted (also by less than halving can tell), subnormal widths
    sweep("double_limits_infinite", rec("intensity", "double"), dl, limits={"min": v_f64(float("-inf")), "max": v_f64(float("inf"))})
    sweep("double_limits_half_infinite", rec("intensity", "double"), dl, limits={"min": v_f64(0.0), "max": v_f64(float("inf"))})
    sweep("double_limits_inverted", rec("intensity", "double"), dl, limits={"min": v_f64(1.0), "max": v_f64(0.0)})
    sweep("double_limits_inverted_subnormal", rec("intensity", "double"), dl, limits={"min": v_f64(5e-324), "max": v_f64(0.0)})
    sweep("double_limits_subnormal_width", rec("intensity", "double"), [v_f64(0.0), v_f64(5e-324), v_f64(1e-323), v_f64(1.0)], limits={"min": v_f64(0.0), "max": v_f64(1e-323)})
    sweep("double_limits_nan", rec("intensity", "double"), dl, limits={"min": v_f64(float("nan")), "max": v_f64(1.0)})
    # the three colour channels are independent: different declared ranges per channel, with default, reset and overridden limits
    def colour3(name, recs, values, limits="default"):
        proto = XYZ + [dict(r, name=n) for r, n in zip(recs, ("colorRed", "colorGreen", "colorBlue"))]
        pts = [[v_f32(1.0), v_f32(0.0), v_f32(0.0)] + list(v) for v in values]
        sets = [] if limits == "default" else [setter("color_limits", limits)]
        out.append(prog(name, [new(), pc(proto, pts=pts, setters=sets), FIN],
                        opts=[[False, False, False, False, True, True], [False, False, False, True, False, False]]))
    r8, r10, r4 = rec("c", "int", 0, 255), rec("c", "int", 0, 1023), rec("c", "int", 2, 17)
    vals = [(v_int(i * 17 % 256), v_int(i * 64 % 1024), v_int(2 + i % 16)) for i in range(17)]
    colour3("colour_distinct_default", [r8, r10, r4], vals)
    colour3("colour_distinct_reset", [r8, r10, r4], vals, limits=None)
    colour3("colour_distinct_perm", [r4, r8, r10], [(c, a, b) for (a, b, c) in vals], limits=None)
    colour3("colour_distinct_floats", [rec("c", "single", f32(0.0), f32(1.0)), rec("c", "double", f64(0.0), f64(2.0)), rec("c", "sint", 0, 16, 0.25, 1.0)],
            [(v_f32(i / 8), v_f64(i / 4), v_sint(i * 2)) for i in range(9)], limits=None)
    # scaled-integer channels with different scales and offsets: each channel is converted with its own record type
    colour3("colour_distinct_sints", [rec("c", "sint", 0, 40, 0.25, 1.0), rec("c", "sint", -8, 24, 0.5, -2.0), rec("c", "sint", 0, 16, 2.0, 0.25)],
            [(v_sint(i * 4), v_sint(-8 + i * 3), v_sint(i)) for i in range(11)])
    colour3("colour_distinct_sints_reset", [rec("c", "sint", 0, 40, 0.25, 1.0), rec("c", "sint", -8, 24, 0.5, -2.0), rec("c", "sint", 0, 16, 2.0, 0.25)],
            [(v_sint(i * 4), v_sint(-8 + i * 3), v_sint(i)) for i in range(11)], limits=None)
    sweep("double_color_limits", rec("intensity", "double", f64(0.0), f64(8.0)), dl, color=True,
          limits={"rmin": v_f64(0.0), "rmax": v_f64(4.0), "gmin": v_f64(1.0), "gmax": v_f64(2.0), "bmin": v_f64(-2.0), "bmax": v_f64(0.0)})
    return out
