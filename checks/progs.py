"""Generators of writer/reader programs (JSON) for the harness `e57-run` command.
Programs are data: the harness executes them against the real API and records; TLC judges."""
import json, random, struct

I64MIN, I64MAX = -(1 << 63), (1 << 63) - 1


def f64(x):
    return {"bits": struct.unpack("<Q", struct.pack("<d", x))[0]}


def f32(x):
    return {"bits": struct.unpack("<I", struct.pack("<f", x))[0]}


def rec(name, t, mn=None, mx=None, scale=None, offset=None, ns=None):
    r = {"ns": ns, "name": name, "t": t, "min": mn, "max": mx}
    if t == "sint":
        r["scale"] = f64(1.0 if scale is None else scale)
        r["offset"] = f64(0.0 if offset is None else offset)
    return r


def xyz(t="single"):
    return [rec("cartesianX", t), rec("cartesianY", t), rec("cartesianZ", t)]


def xyz_sint(mn, mx, scale=0.001, offset=0.0):
    return [rec(n, "sint", mn, mx, scale, offset) for n in ("cartesianX", "cartesianY", "cartesianZ")]


def sph(t="double"):
    return [rec("sphericalRange", t), rec("sphericalAzimuth", t), rec("sphericalElevation", t)]


def rgb(mx=255):
    return [rec("colorRed", "int", 0, mx), rec("colorGreen", "int", 0, mx), rec("colorBlue", "int", 0, mx)]


def new(guid="file-guid"):
    return {"op": "new", "guid": guid}


def blob(n, salt=1):
    return {"op": "blob", "len": n, "salt": salt}


def pc(proto, n=0, seed=1, guid="pc", setters=None, end="finalize", pts=None, namesok=True):
    s = {"op": "pc", "guid": guid, "proto": proto, "setters": setters or [], "end": end, "namesok": namesok}
    s["points"] = {"list": pts} if pts is not None else {"n": n, "seed": seed}
    return s


def image(reps, guid="img", setters=None, end="finalize"):
    return {"op": "image", "guid": guid, "reps": reps, "setters": setters or [], "end": end}


def rep(kind, n, salt=2, fmt="png", mask=None, **props):
    p = {"width": props.pop("width", 4), "height": props.pop("height", 3)}
    for k, v in props.items():
        p[k] = f64(v)
    return {"kind": kind, "fmt": fmt, "len": n, "salt": salt, "mask": None if mask is None else {"len": mask, "salt": salt + 1}, "props": p}


FIN = {"op": "finalize"}


def prog(name, steps, read=None, **kw):
    p = {"name": name, "steps": steps}
    if read is not None:
        p["read"] = read
    p.update(kw)
    return p


def filler_for(start_residue, page=0):
    """blob length so that the section following it starts at logical offset page*1020 + residue
    (the first section starts at 48; a blob section occupies 16 + len + pad)."""
    target = page * 1020 + start_residue
    if target < 64:
        target += 1020
    assert target % 4 == 0
    return target - 64


def small_protos():
    """a family covering every data type, zero-width records, odd widths, negative minima"""
    return [
        xyz("single") + [rec("intensity", "int", -5, 2042)],
        xyz("double") + rgb(),
        xyz_sint(-100000, 100000) + [rec("rowIndex", "int", 7, 7), rec("columnIndex", "int", 0, 1023)],
        sph("double") + [rec("sphericalInvalidState", "int", 0, 2), rec("intensity", "single", f32(0.0), f32(1.0))],
        xyz("single") + sph("single") + [rec("cartesianInvalidState", "int", 0, 2), rec("timeStamp", "double"), rec("isTimeStampInvalid", "int", 0, 1)],
        xyz("single") + [rec("returnCount", "int", 0, 7), rec("returnIndex", "int", 0, 6), rec("intensity", "sint", 0, 4095, 0.25, -1.0),
                         rec("isIntensityInvalid", "int", 0, 1)],
        xyz("single") + [rec("intensity", "int", -1000000007, 1000000007)] + rgb(65535) + [rec("isColorInvalid", "int", 0, 1)],
    ]


def width_proto(w, neg=False):
    """integer record that needs exactly w bits (plus XYZ so the prototype is legal)"""
    if w == 0:
        mn, mx = (5, 5)
    elif w == 64:
        mn, mx = I64MIN, I64MAX
    else:
        span = (1 << w) - 1
        mn = -(span // 2) - 3 if neg else 11
        mx = mn + span
        if mx > I64MAX:
            mx = I64MAX; mn = mx - span
    return xyz("single") + [rec("intensity", "int", mn, mx)]


def c01_programs(seed, tier):
    r = random.Random(seed)
    out = []
    protos = small_protos()
    # (1) section start swept over residues modulo the 1020-byte payload
    residues = list(range(0, 1020, 4)) if tier == "thorough" else sorted(set(list(range(940, 1020, 4)) + list(range(0, 44, 4)) + r.sample(range(0, 1020, 4), 12)))
    for i, res in enumerate(residues):
        p = protos[i % len(protos)]
        n = r.choice([1, 2, 3, 7, 20, 64])
        out.append(prog(f"residue{res}", [new(), blob(filler_for(res), salt=i), pc(p, n, seed=seed * 7 + i), FIN]))
    # (2) several sections in any order, second point cloud right behind the first
    for i in range(12 if tier == "thorough" else 4):
        steps = [new(f"g{i}")]
        for j in range(r.randint(2, 5)):
            k = r.choice(["pc", "pc", "blob", "image"])
            if k == "pc":
                steps.append(pc(r.choice(protos), r.choice([0, 1, 5, 33, 200]), seed=r.randint(1, 10**6), guid=f"pc{j}"))
            elif k == "blob":
                steps.append(blob(r.choice([0, 1, 3, 4, 5, 900, 1003, 1004, 1020, 2041]), salt=j))
            else:
                steps.append(image([rep("visual", r.choice([1, 17, 1000]), salt=j, mask=r.choice([None, 9]))], guid=f"im{j}"))
        steps.append(FIN)
        out.append(prog(f"mix{i}", steps))
    # (3) packet-capacity boundaries: k * maxPointsPerPacket + {-1, 0, +1}
    packs = [(xyz("single") + [rec("intensity", "int", -5, 2042)], 107), (xyz("double") + rgb(), 216)]
    for pi, (p, bits) in enumerate(packs if tier == "thorough" else packs[:1]):
        hdr = 6 + 2 * len(p)
        mpp = ((65535 - hdr - len(p) - 500) * 8) // bits
        for d in ((-1, 0, 1) if tier == "thorough" else (0, 1)):
            out.append(prog(f"packet{pi}_{d}", [new(), pc(p, mpp + d, seed=seed + d), FIN]))
        if tier == "thorough":
            out.append(prog(f"packet{pi}_2x", [new(), blob(977), pc(p, 2 * mpp + 1, seed=seed), FIN]))
    # (3b) integers of any declared range: widths around byte/word boundaries and the widest ones
    for w in ([1, 7, 8, 9, 31, 32, 33, 57, 58, 59, 60, 61, 62, 63, 64] if tier == "quick" else range(0, 65)):
        out.append(prog(f"width{w}", [new(), blob(r.choice([0, 3, 944, 960])), pc(width_proto(w, neg=(w % 2 == 1)), 23, seed=seed * 31 + w), FIN]))
    # (4) empty file, empty point cloud, only blobs
    out.append(prog("empty", [new(), FIN]))
    out.append(prog("emptypc", [new(), pc(protos[0], 0), FIN]))
    return out


def c12_programs(seed, tier):
    r = random.Random(seed)
    out = []
    widths = range(0, 65) if tier == "thorough" else [0, 1, 2, 3, 5, 7, 8, 9, 12, 15, 16, 17, 24, 31, 32, 33, 48, 62, 63, 64]
    for w in widths:
        for neg in (False, True):
            if w in (0, 64) and neg:
                continue
            out.append(prog(f"w{w}{'n' if neg else 'p'}", [new(), pc(width_proto(w, neg), 19 if tier == "quick" else 41, seed=seed * 100 + w), FIN]))
    # wide prototype: packet boundary reached with few points, so streams are cut mid-value
    wide = xyz("double") + [rec(f"f{i}", "int", -3, (1 << (3 + 5 * i % 60)) , ns="ext") for i in range(12)]
    for n in ([700] if tier == "quick" else [700, 1500]):
        out.append(prog(f"wide{n}", [new(), {"op": "ext", "ns": "ext", "url": "http://example.com/ext"}, pc(wide, n, seed=seed), FIN]))
    return out


def c06_programs(seed, tier):
    r = random.Random(seed)
    out = []
    if tier == "thorough":
        lens = list(range(0, 2 * 1020 + 9))
    else:
        lens = sorted(set(list(range(0, 9)) + list(range(1020 - 64 - 17, 1020 - 64 + 3)) + list(range(1003, 1024)) + [2040, 2041, 2044, 3000] + r.sample(range(0, 2049), 10)))
    # several blobs per file to keep the number of files small; the first blob sweeps the start of the second
    for i in range(0, len(lens), 3):
        steps = [new()] + [blob(n, salt=i + j) for j, n in enumerate(lens[i:i + 3])] + [FIN]
        out.append(prog(f"blobs{i}", steps))
    # start residue sweep for a blob header straddling a page boundary
    residues = range(940, 1020, 4) if tier == "quick" else range(0, 1020, 4)
    for res in residues:
        out.append(prog(f"blobres{res}", [new(), blob(filler_for(res), 1), blob(r.choice([1, 5, 16, 200, 1100]), 2), blob(3, 3), FIN]))
    # images of all four representations with and without mask, between point clouds
    kinds = [("visual", {}), ("pinhole", dict(focal=0.05, pw=1e-5, ph=1e-5, px=2.0, py=1.5)),
             ("spherical", dict(pw=0.01, ph=0.02)), ("cylindrical", dict(radius=2.5, py=1.0, pw=0.01, ph=0.02))]
    for ki, (kind, props) in enumerate(kinds):
        for mask in (None, 33):
            reps = [rep(kind, 900 + 41 * ki, salt=ki, fmt="jpeg" if ki % 2 else "png", mask=mask, **props)]
            if kind != "visual":
                reps.insert(0, rep("visual", 77, salt=9, mask=5))
            out.append(prog(f"image_{kind}_{mask}", [new(), pc(small_protos()[0], 3), image(reps), blob(5), pc(small_protos()[1], 2, guid="pc2"), FIN]))
    return out


# ------------------------------------------------------------------------------------------ C10
def v_int(x):
    return [3, x]


def v_sint(x):
    return [2, x]


def v_f32(x):
    return [0, f32(x)["bits"]]


def v_f64(x):
    return [1, f64(x)["bits"]]


def default_value(r, k=0):
    t = r["t"]
    if t == "single":
        return v_f32(0.5 + k)
    if t == "double":
        return v_f64(0.25 + k)
    lo, hi = r["min"], r["max"]
    x = lo + (k % (hi - lo + 1)) if hi >= lo else lo
    return v_int(x) if t == "int" else v_sint(x)


def default_point(proto, k=0):
    return [default_value(r, k) for r in proto]


def c10_programs(seed, tier):
    import itertools
    r = random.Random(seed)
    out = []
    X, Y, Z = xyz("single")
    R, A, E = sph("double")
    cr, cg, cb = rgb()
    inten = rec("intensity", "int", 0, 1000)

    def one(name, proto, namesok=True, pts=None, exts=(), n=3):
        steps = [new()] + [{"op": "ext", "ns": e, "url": "http://x/" + e} for e in exts]
        steps.append(pc(proto, pts=[default_point(proto, k) for k in range(n)] if pts is None else pts, namesok=namesok))
        steps.append(FIN)
        out.append(prog(name, steps))

    # (1) every subset of each group
    for grp, members, base in (("cart", [X, Y, Z], [R, A, E]), ("sph", [R, A, E], [X, Y, Z]), ("col", [cr, cg, cb], [X, Y, Z]),
                               ("ret", [rec("returnCount", "int", 0, 3), rec("returnIndex", "int", 0, 3)], [X, Y, Z])):
        for k in range(len(members) + 1):
            for sub in itertools.combinations(members, k):
                one(f"grp_{grp}_{''.join(m['name'][-1] for m in sub) or 'none'}", list(sub) + base)
                if grp in ("cart", "sph"):
                    one(f"grp_{grp}_only_{''.join(m['name'][-1] for m in sub) or 'none'}", list(sub) + [inten])
    # (2) invalid-state records: type variants, with and without their group
    flags = [("cartesianInvalidState", [X, Y, Z], 2), ("sphericalInvalidState", [R, A, E], 2), ("isColorInvalid", [cr, cg, cb], 1),
             ("isIntensityInvalid", [inten], 1), ("isTimeStampInvalid", [rec("timeStamp", "double")], 1)]
    for fname, grp, hi in flags:
        base = [X, Y, Z] if grp[0]["name"] != "cartesianX" else []
        for label, fr in (("ok", rec(fname, "int", 0, hi)), ("hi1", rec(fname, "int", 0, hi + 1)), ("lo1", rec(fname, "int", 1, hi)),
                          ("narrow", rec(fname, "int", 0, hi - 1)), ("sint", rec(fname, "sint", 0, hi)), ("f32", rec(fname, "single"))):
            one(f"flag_{fname}_{label}", base + grp + [fr])
        one(f"flag_{fname}_nogroup", ([X, Y, Z] if grp[0]["name"] != "cartesianX" else [R, A, E]) + [rec(fname, "int", 0, hi)])
    # (3) type rules
    for nm in ("sphericalAzimuth", "sphericalElevation"):
        for t, kw in (("int", dict(mn=-3, mx=3)), ("sint", dict(mn=-3000, mx=3000, scale=0.001)), ("single", {})):
            pr = [rec(m["name"], t, **kw) if m["name"] == nm else m for m in (R, A, E)]
            one(f"type_{nm}_{t}", pr)
    for nm in ("rowIndex", "columnIndex", "returnCount", "returnIndex"):
        for t, kw in (("int", dict(mn=0, mx=9)), ("sint", dict(mn=0, mx=9)), ("double", {})):
            extra = [rec(nm, t, **kw)]
            if nm.startswith("return"):
                other = "returnIndex" if nm == "returnCount" else "returnCount"
                extra.append(rec(other, "int", 0, 9))
            one(f"type_{nm}_{t}", [X, Y, Z] + extra)
    # (4) degenerate prototypes
    one("dup_intensity", [X, Y, Z, inten, rec("intensity", "int", 0, 5)])
    one("dup_x", [X, X, Y, Z])
    one("all_constant", xyz_sint(5, 5))
    one("all_constant_plus_flag", xyz_sint(0, 0) + [rec("rowIndex", "int", 3, 3)])
    one("one_constant", [X, Y, Z, rec("rowIndex", "int", 3, 3)])
    one("full_range", [X, Y, Z, rec("intensity", "int", I64MIN, I64MAX)], pts=[[v_f32(1), v_f32(2), v_f32(3), v_int(x)] for x in (I64MIN, -1, 0, I64MAX)])
    one("empty_proto", [])
    # (5) extension names
    one("ext_ok", [X, Y, Z, rec("foo", "int", 0, 9, ns="ext")], exts=("ext",))
    one("ext_unregistered", [X, Y, Z, rec("foo", "int", 0, 9, ns="ext")])
    one("ext_other_registered", [X, Y, Z, rec("foo", "int", 0, 9, ns="ext")], exts=("other",))
    for bad in ("", "xmlfoo", "XMLa", "a b", "a.b", "ä", "a:b", "a<b"):
        one(f"ext_badname_{len(out)}", [X, Y, Z, rec(bad, "int", 0, 9, ns="ext")], exts=("ext",), namesok=False)
        one(f"ext_badns_{len(out)}", [X, Y, Z, rec("foo", "int", 0, 9, ns=bad)], namesok=False)
    for bad in ("", "xmlfoo", "a b", "ä"):
        one(f"ext_second_badname_{len(out)}", [X, Y, Z, rec("fine", "int", 0, 9, ns="ext"), rec(bad, "int", 0, 9, ns="ext")], exts=("ext",), namesok=False)
        one(f"ext_third_badname_{len(out)}", [X, Y, Z, rec("a", "int", 0, 9, ns="ext"), rec("b", "single", ns="ext2"), rec(bad, "int", 0, 9, ns="ext")], exts=("ext", "ext2"), namesok=False)
    one("ext_two_ok", [X, Y, Z, rec("a", "int", 0, 9, ns="ext"), rec("b", "double", ns="ext"), rec("c", "int", 0, 1, ns="ext2")], exts=("ext", "ext2"))
    one("ext_second_unregistered", [X, Y, Z, rec("a", "int", 0, 9, ns="ext"), rec("b", "int", 0, 9, ns="nope")], exts=("ext",))
    one("ext_std_name", [X, Y, Z, rec("intensity", "int", 0, 9, ns="ext")], exts=("ext",))
    for bad in ("", "xmlns", "a b", "ä"):
        out.append(prog(f"regext_bad_{len(out)}", [new(), {"op": "ext", "ns": bad, "url": "http://x", "nameok": False}, FIN]))
    out.append(prog("regext_dup", [new(), {"op": "ext", "ns": "e", "url": "http://x"}, {"op": "ext", "ns": "e", "url": "http://y"}, FIN]))
    # (6) value vectors: arity, type per position, integers around their range at every bit phase
    base = [X, Y, Z, inten]
    good = default_point(base)
    one("arity_short", base, pts=[good, good[:3], good])
    one("arity_long", base, pts=[good, good + [v_int(1)], good])
    one("arity_empty", base, pts=[good, [], good])
    for i in range(4):
        for wrong in (v_int(1), v_sint(1), v_f32(1.0), v_f64(1.0)):
            if wrong[0] == good[i][0]:
                continue
            bad = list(good); bad[i] = wrong
            one(f"type_pos{i}_kind{wrong[0]}", base, pts=[good, bad, good])
    for phase in range(8):
        # `phase` preceding 1-bit... use a (8+phase)-bit record before a 3-bit record so that it starts at bit `phase` of a byte
        lead = rec("rowIndex", "int", 0, (1 << (8 + phase)) - 1) if phase else None
        pr = [X, Y, Z] + ([lead] if lead else []) + [rec("intensity", "int", 10, 17)]
        for val in (9, 18, 255, 10 + 256, -1, I64MAX, I64MIN):
            gp = default_point(pr)
            bp = list(gp); bp[-1] = v_int(val)
            one(f"range_phase{phase}_{val}", pr, pts=[gp, bp, gp])
    # records with minimum = maximum (zero bits): type, arity and range rules apply to them as well
    cp = [X, Y, Z, rec("rowIndex", "int", 3, 3), rec("intensity", "sint", 7, 7, 0.5, 0.0)]
    gp = default_point(cp)
    for i, wrongs in ((3, (v_sint(3), v_f32(3.0), v_f64(3.0), v_int(4), v_int(2), v_int(I64MIN))), (4, (v_int(7), v_f64(7.0), v_sint(8), v_sint(6)))):
        for wi, wv in enumerate(wrongs):
            bp = list(gp); bp[i] = wv
            one(f"const_slot{i}_{wi}", cp, pts=[gp, bp, gp])
    sr = [X, Y, Z, rec("intensity", "sint", -100, 100, 0.5, 1.0)]
    for val in (-101, 101, 1 << 40):
        gp = default_point(sr); bp = list(gp); bp[-1] = v_sint(val)
        one(f"range_sint_{val}", sr, pts=[gp, bp, gp])
    # (7) call orders
    p0 = small_protos()[0]
    out.append(prog("abandon_pc", [new(), pc(p0, 5, end="drop"), pc(p0, 4, guid="second"), FIN]))
    out.append(prog("abandon_pc_many", [new(), blob(10), pc(p0, 5000, end="drop"), pc(small_protos()[1], 3, guid="second"), blob(7), FIN]))
    out.append(prog("abandon_image", [new(), image([rep("visual", 50)], end="drop"), pc(p0, 2), FIN]))
    out.append(prog("second_projection", [new(), image([rep("pinhole", 10, focal=1.0, pw=1.0, ph=1.0, px=1.0, py=1.0), rep("spherical", 12, pw=1.0, ph=1.0)]), FIN]))
    out.append(prog("two_visuals", [new(), image([rep("visual", 10, salt=1), rep("visual", 12, salt=2), rep("cylindrical", 5, radius=1.0, py=1.0, pw=1.0, ph=1.0)]), FIN]))
    out.append(prog("image_without_rep", [new(), image([]), pc(p0, 2), FIN]))
    out.append(prog("finalize_twice", [new(), pc(p0, 3), FIN, FIN]))
    out.append(prog("empty_guid", [new(""), pc(p0, 3), FIN]))
    out.append(prog("empty_pc_guid", [new(), pc(p0, 3, guid=""), FIN]))
    return out
