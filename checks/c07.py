"""C07 — corrupted pages never yield data; CRC is CRC-32C in both backends."""
import json, os, collections
import vlib, pagecommon, filecommon, progs
from vlib import log


def c07_files(seed):
    p = progs.small_protos()
    return [
        progs.prog("f_even", [progs.new("g" * 10), progs.blob(100, 1), progs.pc(p[0], 60, seed=seed), progs.blob(7, 2), progs.FIN]),
        progs.prog("f_odd", [progs.new("g" * 11), progs.pc(p[1], 9, seed=seed + 1), progs.image([progs.rep("visual", 300, mask=40)]), progs.FIN]),
        progs.prog("f_multi", [progs.new("g" * 12), progs.pc(p[2], 150, seed=seed + 2), progs.blob(1500, 3), progs.pc(p[3], 40, seed=seed + 3, guid="pc2"), progs.FIN]),
    ]


def file_level(v, wd, exe, seed, mode, samples, files, tag):
    pp = os.path.join(wd, f"{tag}.progs.ndjson")
    with open(pp, "w") as f:
        for p in files:
            f.write(json.dumps(p) + "\n")
    tp = os.path.join(wd, f"{tag}.trace.ndjson")
    vlib.harness(exe, ["c07-run", "--progs", pp, "--mode", mode, "--samples", samples, "--seed", seed, "--out", tp])
    r = vlib.tlc_trace("Trace_C07", tp, os.path.join(wd, f"{tag}.tlc.out"), focus=("C07",), cont=True, timeout=3000)
    if not r["accepted"]:
        raise vlib.ToolError(f"Trace_C07 did not consume the trace: {r}")
    lines = open(tp).read().splitlines()
    v.add(traces_validated_against_impl=len(files), trace_events=r["events"], alterations=r["events"] - len(files))
    groups = collections.OrderedDict()
    for at, t in r["viol"]:
        e = json.loads(lines[at - 1])
        # run name = nearest preceding reset
        name = "?"
        for i in range(at - 1, -1, -1):
            if '"ev":"reset"' in lines[i]:
                name = json.loads(lines[i])["name"]; break
        alt = e["alt"]
        where = f"byte{alt['bits'][0] // 8}" if alt["kind"] == "bit1" else alt["kind"]
        groups.setdefault((t, name, where), []).append(e)
    for (t, name, where), evs in groups.items():
        rp = os.path.join(wd, "replay", f"{tag}_{name}_{where}.json")
        json.dump({"file_program": [p for p in files if p["name"] == name], "cases": evs[:3]}, open(rp, "w"))
        v.violation(f"Trace_C07:{t}@{name}:{where}", rp, f"({len(evs)} alterations)")
    v.sample({"c07_case": json.loads(lines[1])})
    v.sample({"c07_case": json.loads(lines[len(lines) // 2])})
    log(f"[C07] {tag}: {r['events']} events validated ({mode}, {samples} sampled alterations/file), {len(r['viol'])} rejected cases")
    os.remove(tp)


def run(tier, seed, args):
    v = vlib.Verdict("C07", tier, seed, "model_checking")
    wd = vlib.workdir("C07")
    exe = vlib.build_harness()
    deep = tier == "thorough"
    # (A)+(B) page level: all reader histories x subsets of altered pages, replayed on the real PagedReader
    # merged search with per-page cache probes as observer, then the full tree of histories (no merging) one level shallower
    runs = [({"MaxDepth": 4 if deep else 3, "MaxCorrupt": 3 if deep else 2, "Merge": True}, "mcr")]
    if deep:
        runs.append(({"MaxDepth": 3, "MaxCorrupt": 2, "Merge": False}, "mcr_tree"))
    for consts, tag in runs:
        bad, n = pagecommon.mc_and_replay(v, wd, exe, "MC_PageR", consts, ["MC_ReadCache"], ["PropRead", "PropVerdict"], "page-replay-r", tag)
        pagecommon.confirm_r(v, wd, exe, bad)
    # (C) file level: exhaustive single-bit flips of small files + sampled 2/3-bit flips, bursts, overwrites
    files = c07_files(seed)
    file_level(v, wd, exe, seed, "exhaustive", 3000 if deep else 300, files if deep else files[:2], "sw")
    # (C) whole-file validation on a large file: every page altered in turn must be reported
    big = [progs.prog("f_big", [progs.new(), progs.pc(progs.small_protos()[1], 25000 if not deep else 60000, seed=seed), progs.FIN])]
    file_level(v, wd, exe, seed, "pagesweep", 0, big, "big")
    # (C) both CRC backends: same files, same verdicts
    exe_hw = vlib.build_harness(hwcrc=True)
    file_level(v, wd, exe_hw, seed, "exhaustive" if deep else "sample", 2000 if deep else 400, files, "hw")
    # both backends produce byte-identical files, every page sealed with CRC-32C from the polynomial (TLC)
    ident = os.path.join(wd, "ident.progs.ndjson")
    ps = progs.c01_programs(seed, "quick")[:30 if not deep else None]
    imgs = {}
    for name, e in (("sw", exe), ("hw", exe_hw)):
        with open(ident, "w") as f:
            for p in ps:
                f.write(json.dumps(dict(p, read=[])) + "\n")
        tr = os.path.join(wd, f"ident_{name}.ndjson")
        vlib.harness(e, ["e57-run", "--progs", ident, "--out", tr])
        imgs[name] = [json.loads(l)["bytes"] for l in open(tr) if '"ev":"final"' in l]
        if name == "hw":
            import xmlproj
            tx = os.path.join(wd, "ident_hw_x.ndjson")
            xmlproj.augment_trace(tr, tx)
            filecommon.validate_runs(v, wd, filecommon.split_runs(tx), "identhw", focus=("C02", "C07"))
            os.remove(tx)
        os.remove(tr)
    same = imgs["sw"] == imgs["hw"]
    v.cov["backends_byte_identical_files"] = len(imgs["sw"]) if same else 0
    if not same:
        rp = os.path.join(wd, "replay", "backend_difference.json")
        json.dump({"programs": ps}, open(rp, "w"))
        v.violation("backends:files-differ", rp, "software and crc32c-feature builds produced different files")
    v.add(exhaustive=True, rule="page level: every edge of the bounded reader model (all histories x altered-page subsets) replayed on the real PagedReader; file level: every single-bit flip of small real files plus sampled multi-bit/burst/overwrite alterations, each with one of four operation orders on one reader; both CRC builds",
          evaluations=v.cov.get("edges_replayed", 0) + v.cov.get("alterations", 0), distinct_nontrivial=v.cov.get("alterations", 0))
    v.assumptions += ["alterations are detectable (the harness confirms with an independent CRC that every altered page is unsealed)",
                      "Hamming-distance guarantee of CRC-32C follows from the polynomial pinned in Crc32c.tla, not from TLC"]
    return v.finish()
