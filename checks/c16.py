"""C16 — device faults surface as errors; short I/O changes nothing."""
import json, os
import vlib, sweepcommon, filecommon, progs
from vlib import log


def c16_programs(seed, tier):
    p = progs.small_protos()
    ps = [
        progs.prog("w1", [progs.new(), progs.blob(960, 1), progs.pc(p[0], 120, seed=seed), progs.image([progs.rep("visual", 100, mask=10)]), progs.FIN]),
        progs.prog("w2", [progs.new(), progs.pc(p[1], 70, seed=seed + 1), progs.blob(1016, 2), progs.pc(p[2], 300, seed=seed + 2, guid="b"), progs.FIN]),
    ]
    # section headers that straddle a page boundary are patched in place later: the page after the
    # boundary is re-loaded from the device while writing (short reads matter there)
    ps.append(progs.prog("straddle", [progs.new(), progs.blob(progs.filler_for(1008), 5), progs.blob(50, 6),
                                      progs.blob(928, 7), progs.pc(p[0], 40, seed=seed + 5), progs.FIN]))
    if tier == "thorough":
        ps += [progs.prog("w3", [progs.new(), progs.blob(progs.filler_for(1000), 3), progs.pc(p[5], 900, seed=seed + 3), progs.blob(3, 4),
                                 progs.image([progs.rep("visual", 40), progs.rep("pinhole", 2000, mask=1100, focal=1.0, pw=1.0, ph=1.0, px=1.0, py=1.0)]), progs.FIN]),
               progs.prog("w4_packets", [progs.new(), progs.pc(p[0], 5200, seed=seed + 4), progs.FIN]),
               # every image representation, metadata-only, many small sections (programs with a second finalize belong to C15: the fault harness compares with ONE completed file)
               progs.prog("w5_images", [progs.new(), progs.image([progs.rep("visual", 700, mask=300), progs.rep("spherical", 1200, mask=40, pw=0.1, ph=0.1)]),
                                        progs.image([progs.rep("cylindrical", 900, pw=0.1, ph=0.1, radius=2.0, ppy=1.0)], guid="i2"), progs.FIN]),
               progs.prog("w6_meta_only", [progs.new(), {"op": "coord", "v": "EPSG:4326" * 130}, progs.FIN]),
               progs.prog("w7_many_sections", [progs.new()] + [x for i in range(12) for x in (progs.blob(90 + 83 * i, i), progs.pc(p[i % 6], 3 + i, seed=seed + i, guid=f"p{i}"))] + [progs.FIN])]
    return ps


def run(tier, seed, args):
    v = vlib.Verdict("C16", tier, seed, "fault_enumeration")
    wd = vlib.workdir("C16")
    exe = vlib.build_harness()
    deep = tier == "thorough"
    # (A) design-level model of the transfer loops under short transfers and one fault; the seeded loop variants must fail
    mc = []
    for loop, expect_ok in (("asbuilt", True), ("single_read", False), ("swallow", False)):
        for n, dl in ((6, 4), (5, 5), (4, 0), (5, 9)) if deep else ((6, 4), (4, 0)):
            cfg = os.path.join(wd, f"chunk_{loop}_{n}_{dl}.cfg")
            vlib.write_cfg(cfg, spec="Spec", constants={"N": n, "DevLen": dl, "Loop": f'"{loop}"'}, invariants=["ChunkingIrrelevant", "FaultSurfaces"])
            r = vlib.tlc_mc("ChunkSpec", cfg, os.path.join(wd, f"chunk_{loop}_{n}_{dl}.out"), workers=2, timeout=300)
            ok = r["violated"] is None
            mc.append({"loop": loop, "N": n, "DevLen": dl, "holds": ok, "states": r["distinct"]})
            if ok and not expect_ok and dl == 0:
                continue          # with nothing to read the variants coincide with the loop as built
            if ok != expect_ok:
                raise vlib.ToolError(f"ChunkSpec: loop '{loop}' (N={n}, DevLen={dl}) expected {'to hold' if expect_ok else 'to be violated'}")
    v.cov["chunk_model"] = mc
    # (A2) RetrySpec: write_all over PagedWriter::write under the retryable error kind; handing Interrupted to the caller
    # after the bytes were consumed (the code before D-34) duplicates them
    rs = []
    for variant, expect_ok in (("asbuilt", True), ("propagate", False)):
        cfg = os.path.join(wd, f"retry_{variant}.cfg")
        vlib.write_cfg(cfg, spec="Spec", constants={"N": 5 if deep else 4, "MaxChunk": 2, "Variant": f'"{variant}"'}, invariants=["Exact", "InStep"])
        r = vlib.tlc_mc("RetrySpec", cfg, os.path.join(wd, f"retry_{variant}.out"), workers=2, timeout=300)
        ok = r["violated"] is None and r["ok"]
        rs.append({"variant": variant, "holds": ok, "states": r["distinct"], "violated": r["violated"]})
        if ok != expect_ok:
            raise vlib.ToolError(f"RetrySpec: variant '{variant}' expected {'to hold' if expect_ok else 'to be violated'}; TLC: {r['violated']}")
    v.cov["retry_model"] = rs
    ps = c16_programs(seed, tier)
    pp = os.path.join(wd, "progs.ndjson")
    with open(pp, "w") as f:
        for p in ps:
            f.write(json.dumps(p) + "\n")
    tp = os.path.join(wd, "c16.trace.ndjson")
    vlib.harness(exe, ["c16-run", "--progs", pp, "--scheds", 40 if deep else 8, "--seed", seed, "--out", tp])
    r, lines = sweepcommon.validate_sweep(v, wd, "Trace_C16", tp, ("C16",), "c16",
                                          lambda e: f"{e['ev']}:{e.get('at', e.get('sched'))}", ctx=ps)
    evs = [json.loads(x) for x in lines]
    nw = sum(1 for e in evs if e["ev"] == "c16_wfault"); nr = sum(1 for e in evs if e["ev"] == "c16_rfault")
    nc = sum(1 for e in evs if e["ev"] == "c16_chunk")
    ni = sum(1 for e in evs if e["ev"] == "c16_wintr"); nretry = sum(1 for e in evs if e["ev"] == "c16_wretry")
    v.cov["interrupted_positions"] = ni; v.cov["finalize_retries"] = nretry
    kinds = set()
    for e in evs:
        for h in e.get("hit", []):
            kinds.add(h["ev"])
    log(f"[C16] {len(ps)} programs: {nw} writer fault positions, {nr} reader fault positions, {nc} chunking schedules; calls hit by a fault: {sorted(kinds)}")
    for e in evs[2:4] + [x for x in evs if x["ev"] == "c16_chunk"][:1]:
        v.sample(e)
    # chunked runs are also judged in full by the file-level specification (content, not just equality)
    chunked = [dict(p, chunks=c, name=p["name"] + f"_chunk{i}") for p in ps[:2] for i, c in enumerate(([1], [3, 1000, 1], [1021]))]
    filecommon.run_programs(v, wd, exe, chunked, "chunked", focus=("C16", "C01", "C02", "C06"))
    v.add(exhaustive=True, evaluations=nw + nr + nc + len(chunked), distinct_nontrivial=nw + nr,
          rule="one case = one position of a single injected error in the device operation sequence (exhaustive over all reads, writes, seeks and flushes of each writer and reader program), "
               "or the same position with the retryable error kind (Interrupted: finalize Ok only with the complete file), or a failed finalize tried again (Ok only with a file that reads as the complete one), "
               "or one short-transfer schedule; distinct = fault positions; calls hit: " + ", ".join(sorted(kinds)),
          traces_validated_against_impl=len(ps))
    v.assumptions += ["single fault per run; behaviour after a failed call is not constrained (the program stops there) except for a repeated top-level finalize",
                      "a fault inside a destructor cannot be reported and is allowed"]
    return v.finish()
