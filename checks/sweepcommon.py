"""Helper for sweep-style checks (one compact event per case, TLC in continue mode)."""
import json, os, collections
import vlib
from vlib import log


def validate_sweep(v, wd, module, tp, focus, tag, keyfn, ctx=None, timeout=3000):
    """TLC validates the whole trace in continue mode; rejected cases are grouped by keyfn(event, run name)."""
    r = vlib.tlc_trace(module, tp, os.path.join(wd, f"{tag}.tlc.out"), focus=focus, cont=True, timeout=timeout)
    if not r["accepted"]:
        raise vlib.ToolError(f"{module} did not consume the trace {tp}: {r}")
    lines = open(tp).read().splitlines()
    v.add(trace_events=r["events"])
    groups = collections.OrderedDict()
    for at, t in r["viol"]:
        e = json.loads(lines[at - 1])
        name = "?"
        for i in range(at - 1, -1, -1):
            if '"ev":"reset"' in lines[i]:
                name = json.loads(lines[i]).get("name", "?"); break
        groups.setdefault((t, name, keyfn(e)), []).append(e)
    for (t, name, key), evs in groups.items():
        rp = os.path.join(wd, "replay", f"{tag}_{name}_{key}.json".replace("/", "_"))
        json.dump({"context": ctx, "cases": evs[:3]}, open(rp, "w"))
        v.violation(f"{module}:{t}@{name}:{key}", rp, f"({len(evs)} cases)")
    return r, lines
