"""Helper for sweep-style checks (one compact event per case, TLC in continue mode).
The trace is cut at `reset` events into chunks validated by parallel TLC instances."""
import json, os, collections
import concurrent.futures as cf
import vlib
from vlib import log


def validate_sweep(v, wd, module, tp, focus, tag, keyfn, ctx=None, timeout=3000, jobs=6):
    lines = open(tp).read().splitlines()
    starts = [i for i, ln in enumerate(lines) if '"ev":"reset"' in ln[:60] or ln.startswith('{"ev":"reset"')]
    if not starts or starts[0] != 0:
        starts = [0] + starts
    # group runs into at most `jobs` chunks of similar size
    target = max(1, len(lines) // jobs)
    chunks, cur_start = [], 0
    for s in starts[1:]:
        if s - cur_start >= target:
            chunks.append((cur_start, s)); cur_start = s
    chunks.append((cur_start, len(lines)))

    def work(ci):
        a, b = chunks[ci]
        cp = f"{tp}.chunk{ci}"
        with open(cp, "w") as f:
            f.write("\n".join(lines[a:b]) + "\n")
        r = vlib.tlc_trace(module, cp, os.path.join(wd, f"{tag}.{ci}.tlc.out"), focus=focus, cont=True, timeout=timeout)
        os.remove(cp)
        return a, r

    with cf.ThreadPoolExecutor(max_workers=jobs) as ex:
        results = list(ex.map(work, range(len(chunks))))
    viol, events = [], 0
    for a, r in results:
        if not r["accepted"]:
            raise vlib.ToolError(f"{module} did not consume the trace {tp} (chunk at line {a}): {r}")
        events += r["events"]
        viol += [(at + a, t) for at, t in r["viol"]]
    v.add(trace_events=events)
    groups = collections.OrderedDict()
    for at, t in viol:
        e = json.loads(lines[at - 1])
        name = "?"
        for i in range(at - 1, -1, -1):
            if '"ev":"reset"' in lines[i][:60]:
                name = json.loads(lines[i]).get("name", "?"); break
        groups.setdefault((t, name, keyfn(e)), []).append(e)
    for (t, name, key), evs in groups.items():
        rp = os.path.join(wd, "replay", f"{tag}_{name}_{key}.json".replace("/", "_"))
        json.dump({"context": ctx, "cases": evs[:3]}, open(rp, "w"))
        v.violation(f"{module}:{t}@{name}:{key}", rp, f"({len(evs)} cases)")
    return {"events": events, "viol": viol, "accepted": True}, lines
