"""C19 — copying a file through the library is lossless and writing is deterministic."""
import json, os, glob
import vlib, sweepcommon, progs
from vlib import log


def run(tier, seed, args):
    v = vlib.Verdict("C19", tier, seed, "model_checking")
    wd = vlib.workdir("C19")
    exe = vlib.build_harness()
    srcs = [{"name": os.path.basename(f), "file": f} for f in sorted(glob.glob("/repo/testdata/*.e57"))]
    ps = progs.c01_programs(seed, "quick")
    ps = [p for p in ps if not p["name"].startswith("packet")] if tier == "quick" else progs.c01_programs(seed, "quick")
    srcs += ps[::3] if tier == "quick" else ps
    srcs += [p for p in progs.c04_programs(seed, tier) if p["name"] in ("all_set", "none_set", "string7", "string11", "float8", "float6", "rep3_0", "rep4_0", "ilim_int", "clim_override")]
    srcs += [p for p in progs.c06_programs(seed, "quick") if p["name"].startswith("image_")]
    # prototypes with the full 64-bit range and min = max records
    X = progs.xyz("single")
    srcs.append(progs.prog("fullrange", [progs.new(), progs.pc(X + [progs.rec("intensity", "int", progs.I64MIN, progs.I64MAX), progs.rec("rowIndex", "int", 4, 4)], 40, seed=seed), progs.FIN]))
    srcs.append(progs.prog("ext_records", [progs.new(), {"op": "ext", "ns": "ext", "url": "urn:x"}, progs.pc(X + [progs.rec("intensity", "int", 0, 9, ns="ext"), progs.rec("foo", "double", ns="ext")], 10, seed=seed), progs.FIN]))
    # extension URLs with every character XML escapes, put into the SOURCE by text substitution (as a foreign producer would
    # have written them), so that the copy alone exercises the writer's escaping
    for i, esc in enumerate(("a&quot;b", "x&lt;y&gt;z", "q&amp;r&quot;&lt;&gt;&apos;s", "&#34;n&#60;")):
        srcs.append(progs.prog(f"ext_url_escaped{i}", [progs.new(), {"op": "ext", "ns": "ext", "url": "urn:PLACEHOLDER"},
                                                       progs.pc(X + [progs.rec("foo", "int", 0, 9, ns="ext")], 5, seed=seed),
                                                       {"op": "finalize", "xml_replace": [["urn:PLACEHOLDER", "urn:" + esc]]}]))
    # two point clouds: the size of the first sweeps the start of the second (in the copy as well) over the page payload
    p0 = progs.small_protos()[0]
    for n1 in (range(1, 260) if tier == "thorough" else range(1, 131)):
        srcs.append(progs.prog(f"twopc{n1}", [progs.new(), progs.pc(p0, n1, seed=seed + n1, guid="a"), progs.pc(progs.small_protos()[1], 10, seed=seed, guid="b"), progs.FIN]))
    # half-defaulted integer ranges (a foreign file that omits only one of minimum/maximum is read like this)
    for i, (mn, mx) in enumerate(((0, progs.I64MAX), (progs.I64MIN, 5), (progs.I64MIN + 1, progs.I64MAX), (-1, progs.I64MAX))):
        srcs.append(progs.prog(f"halfdefault{i}", [progs.new(), progs.pc(X + [progs.rec("intensity", "int", mn, mx)], 30, seed=seed + i), progs.FIN]))
    if tier == "thorough":
        srcs += progs.c12_programs(seed, "quick")
        srcs += [p for p in progs.c14_programs(seed, "thorough") if p["name"].startswith(("b_random", "b_constant"))]
        srcs += [p for p in progs.c04_programs(seed, "thorough") if p["name"].startswith(("string", "float")) and not p.get("nonxml")]
        srcs += [p for p in progs.c13_programs(seed, "quick") if "limits" in p["name"] and "nan" not in p["name"]][:20]
    # files of the independent encoder (C03) when available
    try:
        import c03
        srcs += c03.serialized_sources(wd, seed, tier)
    except Exception as ex:  # noqa
        v.cov["c03_sources"] = f"not available: {ex}"
    sp = os.path.join(wd, "sources.ndjson")
    with open(sp, "w") as f:
        for s in srcs:
            f.write(json.dumps(s) + "\n")
    tp = os.path.join(wd, "c19.trace.ndjson")
    vlib.harness(exe, ["c19-run", "--sources", sp, "--out", tp], timeout=3000)
    r, lines = sweepcommon.validate_sweep(v, wd, "Trace_C19", tp, ("C19",), "c19", lambda e: e["ev"], ctx=None)
    evs = [json.loads(x) for x in lines if '"c19_copy"' in x]
    unread = sum(1 for x in lines if '"c19_unreadable"' in x)
    log(f"[C19] {len(srcs)} sources: {len(evs)} copied ({sum(1 for e in evs if 'ok' in e['res'])} succeeded), {unread} not readable (skipped)")
    for e in evs[:2]:
        e = dict(e); e.pop("source_report", None); e.pop("copy_report", None); v.sample(e)
    os.remove(tp)
    v.add(states=r["events"], transitions=r["events"], traces_validated_against_impl=len(evs), evaluations=len(srcs), distinct_nontrivial=len(evs),
          rule="one case = one source file (bundled test data, writer files over the C01/C04/C06 generators incl. full-range and min=max prototypes and extension records, files of the independent encoder): "
               "copied through the public API, copy of the copy, second write; TLC decides from the acceptance relation whether the copy must succeed and requires equal masked reports, points, image data and byte-identical rewrites")
    v.assumptions += ["file positions (section and blob offsets), the library version string and the writer-derived bounds are masked when comparing source and first copy; the copy of the copy is compared in full"]
    return v.finish()
