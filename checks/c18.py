"""C18 — unknown extension content never alters standard content."""
import json, os, re, subprocess
import vlib, filecommon, progs, xmlproj
from vlib import log

EXTNS = "http://example.com/foreign-extension"


def schema_table(wd):
    """the transcribed E57 schema, printed by TLC from E57Meta.SchemaKids (single source of truth)"""
    out = os.path.join(wd, "schema.out")
    subprocess.run(["timeout", "120", "tlc", "-workers", "1", "-metadir", os.path.join(wd, "ms"), "-cleanup", "-noGenerateSpecTE",
                    "-config", os.path.join(vlib.SPEC, "MC_Schema.cfg"), os.path.join(vlib.SPEC, "MC_Schema.tla")],
                   stdout=open(out, "w"), stderr=subprocess.STDOUT, cwd=wd, env=dict(os.environ, JAVA_TOOL_OPTIONS=f"-Djava.io.tmpdir={vlib.tmpdir(wd)}"))
    for line in open(out):
        if line.startswith('"SCHEMA '):
            t = json.loads(json.loads(line.strip())[7:])
            return {e["key"]: e["kids"] for e in t}
    raise vlib.ToolError("could not obtain the schema table from TLC")


def foreign(name, ty, table, depth=0, default_ns=False):
    """a well-formed element in the foreign namespace mimicking a standard element of that name; default_ns: the
    namespace is bound by re-declaring the default namespace on the element (its children inherit it) instead of a prefix"""
    if default_ns:
        inner = foreign(name, ty, table, depth).replace("<fx:", "<").replace("</fx:", "</")
        cut = len(name) + 1
        return inner[:cut] + f' xmlns="{EXTNS}/default"' + inner[cut:]
    q = "fx:" + name
    if ty == "String":
        return f'<{q} type="String"><![CDATA[FOREIGN-{name}]]></{q}>'
    if ty == "Integer":
        return f'<{q} type="Integer">7</{q}>'
    if ty in ("Float", "*"):
        return f'<{q} type="Float">0.5</{q}>'
    if ty == "Blob":
        return f'<{q} type="Blob" fileOffset="48" length="1"/>'
    if ty == "CompressedVector":
        return f'<{q} type="CompressedVector" fileOffset="48" recordCount="1"><fx:prototype type="Structure"><fx:cartesianX type="Float"/></fx:prototype></{q}>'
    if ty == "Vector":
        return f'<{q} type="Vector" allowHeterogeneousChildren="1"><fx:vectorChild type="String"><![CDATA[FOREIGN-child]]></fx:vectorChild></{q}>'
    # Structure: nested foreign children named like the standard children of that structure
    kids = table.get(name, []) if depth < 2 else []
    inner = "".join(foreign(k[0], k[1], table, depth + 1) for k in kids)
    return f'<{q} type="Structure">{inner}</{q}>'


def key_of(parent_key, node):
    if node["name"] == "vectorChild" and parent_key in ("data3D", "images2D"):
        return parent_key + "/vectorChild"
    return node["name"]


def insertion_points(node, key, table, every_index, out, path="e57Root"):
    """(byte offset, parent key, index) for insertions among the children of every element outside prototypes"""
    if node["name"] in ("prototype",):
        return
    kids = node["kids"]
    idxs = range(len(kids) + 1) if every_index else sorted({0, len(kids)})
    if key in table:
        for i in idxs:
            off = kids[i]["pos"] if i < len(kids) else node["endpos"]
            out.append((off, key, i, path))
    for k in kids:
        insertion_points(k, key_of(key, k), table, every_index, out, path + "/" + k["name"])


def run(tier, seed, args):
    v = vlib.Verdict("C18", tier, seed, "model_checking")
    wd = vlib.workdir("C18")
    exe = vlib.build_harness()
    deep = tier == "thorough"
    table = schema_table(wd)
    # base program: everything set, two point clouds, two images; the foreign namespace is registered
    base = [p for p in progs.c04_programs(seed, tier) if p["name"] == "all_set"][0]
    steps = [s for s in base["steps"]]
    steps.insert(1, {"op": "ext", "ns": "fx", "url": EXTNS})
    base = dict(base, name="base", steps=steps)
    # obtain the XML the writer generates for it
    pp = os.path.join(wd, "base.ndjson"); tp = os.path.join(wd, "base.trace")
    json.dump(dict(base, read=[{"op": "xml"}]), open(pp, "w"))
    vlib.harness(exe, ["e57-run", "--progs", pp, "--out", tp])
    xml = None
    for line in open(tp):
        e = json.loads(line)
        if e["ev"] == "r_xml":
            xml = bytes(e["res"]["ok"])
    if xml is None:
        raise vlib.ToolError("base program did not produce a readable file")
    os.remove(tp)
    tree = xmlproj.project(xml)["root"]
    pts = []
    insertion_points(tree, "e57Root", table, deep, pts)
    cases = [dict(base, name="unextended")]
    nins = 0
    for off, key, i, path in pts:
        names = [(k[0], k[1]) for k in table[key]] + [("somethingNew", "String"), ("somethingNew", "Structure")]
        if not deep and i != 0:
            names = names[:3] + names[-1:]
        for nm, ty in names:
            st = [dict(s) for s in base["steps"]]
            st[-1] = {"op": "finalize", "xml_splice": [[off, foreign(nm, ty, table) + "\n"]]}
            cases.append(dict(base, name=f"ins:{path}[{i}]:{nm}:{ty}", steps=st))
            nins += 1
            if deep or i == 0:
                st = [dict(s) for s in base["steps"]]
                st[-1] = {"op": "finalize", "xml_splice": [[off, foreign(nm, ty, table, default_ns=True) + "\n"]]}
                cases.append(dict(base, name=f"insdef:{path}[{i}]:{nm}:{ty}", steps=st))
                nins += 1
    # foreign attributes on every element (outside prototypes)
    FATTRS = ' fx:note="1" fx:type="String" fx:fileOffset="4" fx:recordCount="3" fx:length="2" fx:allowHeterogeneousChildren="0" fx:minimum="1" fx:maximum="2"'
    def tag_end(pos):
        """offset of the '>' (or '/>') that ends the start tag beginning at pos"""
        q, i = None, pos
        while True:
            c = xml[i:i + 1]
            if q:
                if c == q:
                    q = None
            elif c in (b'"', b"'"):
                q = c
            elif c == b">":
                return i - 1 if xml[i - 1:i] == b"/" else i
            i += 1
    for where in ("first", "last"):
        sp = []
        def attrs(n):
            if n["name"] == "prototype":
                return
            sp.append([n["pos"] + 1 + len(n["name"]) if where == "first" else tag_end(n["pos"]), FATTRS])
            for k in n["kids"]:
                attrs(k)
        attrs(tree)
        st = [dict(s) for s in base["steps"]]; st[-1] = {"op": "finalize", "xml_splice": sp}
        cases.append(dict(base, name=f"foreign-attributes-everywhere-{where}", steps=st))
    # extension records inside prototypes: reported with prefix and name, values round-trip, standard records untouched
    X = progs.xyz("single")
    ext_protos = [
        X + [progs.rec("intensity", "int", 0, 100), progs.rec("intensity", "int", -5, 5, ns="fx"), progs.rec("cartesianX", "double", ns="fx")],
        [progs.rec("nx", "single", ns="fx")] + X + [progs.rec("classification", "int", 0, 255, ns="other"), progs.rec("colorRed", "sint", 0, 7, 0.5, 0.0, ns="other")],
        X + [progs.rec(n, "int", 0, 3, ns="fx") for n in ("rowIndex", "isColorInvalid", "timeStamp", "a-b_c", "A1")],
    ]
    for i, pr in enumerate(ext_protos):
        cases.append(progs.prog(f"ext-records{i}", [progs.new(), {"op": "ext", "ns": "fx", "url": EXTNS}, {"op": "ext", "ns": "other", "url": "urn:other"},
                                                   progs.pc(pr, 25, seed=seed + i), progs.FIN]))
    # the same, with the namespace of the extension records declared on an inner element instead of the root
    for i, (frm, to) in enumerate(((' xmlns:other="urn:other"', ''), )):
        st = [progs.new(), {"op": "ext", "ns": "fx", "url": EXTNS}, {"op": "ext", "ns": "other", "url": "urn:other"}, progs.pc(ext_protos[1], 25, seed=seed),
              {"op": "finalize", "xml_replace": [[' xmlns:other="urn:other"', ''], ['<prototype type="Structure">', '<prototype type="Structure" xmlns:other="urn:other">']]}]
        cases.append(progs.prog(f"ext-records-inner-declaration{i}", st))
        st2 = [progs.new(), {"op": "ext", "ns": "fx", "url": EXTNS}, {"op": "ext", "ns": "other", "url": "urn:other"}, progs.pc(ext_protos[1], 25, seed=seed),
               {"op": "finalize", "xml_replace": [[' xmlns:other="urn:other"', ''], ['<vectorChild type="Structure">', '<vectorChild type="Structure" xmlns:other="urn:other">']]}]
        cases.append(progs.prog(f"ext-records-vectorchild-declaration{i}", st2))
    # extension records in front of / between the coordinate and index records: bounds and limits stay those of the standard records
    cases += [p for p in progs.c14_programs(seed, "quick") if p["name"].startswith("b_ext_in_front")]
    log(f"[C18] {nins} insertions at {len(pts)} insertion points, {len(sp)} elements with foreign attributes, {len(ext_protos)} prototypes with extension records")
    filecommon.run_programs(v, wd, exe, cases, "c18", focus=("C18", "C04", "C01", "C06", "C14"), jobs=6, batch_events=600)
    # the simple iterator on prototypes whose extension records carry standard local names: its view is made of the standard records
    import c05
    sp = [p for p in progs.c05_programs(seed, "quick") if p["name"].startswith("view_ext_standard_names")]
    c05.run_simple(v, wd, exe, sp, "c18simple", ("C05",))
    v.add(states=v.cov.get("trace_events", 0), transitions=v.cov.get("trace_events", 0),
          rule="one case = the fully populated base file with ONE foreign-namespace element spliced in (parent = every element outside a prototype, position = first/last (quick) or every index (thorough), "
               "local name = each standard child name of that parent from the specification's schema table, or a fresh name; same type and plausible content), or foreign attributes on every element, "
               "or extension records in prototypes; TLC requires the reader's report, points and blobs to equal the un-extended scene",
          evaluations=len(cases), distinct_nontrivial=nins)
    v.assumptions += ["insertion points and names are derived from the schema table printed by TLC from E57Meta.SchemaKids"]
    return v.finish()
