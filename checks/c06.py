"""C06 — blobs and image payloads round-trip byte-exactly."""
import vlib, filecommon, progs


def run(tier, seed, args):
    v = vlib.Verdict("C06", tier, seed, "model_checking")
    wd = vlib.workdir("C06")
    exe = vlib.build_harness()
    if args.replay:
        filecommon.validate_runs(v, wd, filecommon.split_runs(args.replay), "replay", focus=("C06",))
        return v.finish()
    ps = progs.c06_programs(seed, tier)
    filecommon.run_programs(v, wd, exe, ps, "c06", focus=("C06",))
    # last clause of the property on files the writer did not produce: whenever a blob extraction reports success it
    # delivered exactly the descriptor's length (damaged, truncated and consistently enlarged descriptors: the mutated files of C08/C09)
    import c08
    c08.run_untrusted(v, wd, exe, seed, "quick" if tier == "quick" else "thorough", ("C06",))
    v.add(states=v.cov.get("trace_events", 0), transitions=v.cov.get("trace_events", 0),
          rule="one case = one writer program: blob lengths (every residue mod 4, around the page payload size) x start residues mod 1020 x images of all four representations with/without mask between point clouds; "
               "TLC locates every blob through its descriptor with the independent decoder and compares bytes with the input and with what the reader returns; "
               "plus every blob extraction on the mutated files of C08/C09: Ok only with exactly the descriptor's length",
          evaluations=v.cov.get("programs", 0), distinct_nontrivial=v.cov.get("traces_validated_against_impl", 0))
    v.assumptions += ["TLC, E57Format, harness recording code, expat XML projection"]
    return v.finish()
