"""C02 — every finalized file is a well-formed E57 file by an independent decoder."""
import vlib, filecommon, progs


def xml_end_sweep(v, wd, exe, seed, tier):
    """programs whose XML section ends on, just before and just after a page payload boundary:
    the file GUID length shifts the XML end byte by byte (a probe run measures the base layout)"""
    import json, os
    base = [progs.new("g" * 10), progs.pc(progs.small_protos()[0], 5, seed=seed), progs.FIN]
    pp = os.path.join(wd, "probe.ndjson"); tp = os.path.join(wd, "probe.trace")
    json.dump(progs.prog("probe", base, read=[{"op": "report"}]), open(pp, "w"))
    vlib.harness(exe, ["e57-run", "--progs", pp, "--out", tp])
    hdr = None
    for line in open(tp):
        e = json.loads(line)
        if e["ev"] == "r_report" and "ok" in e["res"]:
            hdr = e["res"]["ok"]["header"]
    os.remove(tp)
    if hdr is None:
        return []
    nat = lambda l: l[0] + (l[1] << 16)
    xoff, xlen = nat(hdr["xml_offset"]), nat(hdr["xml_length"])
    end = xoff - 4 * (xoff // 1024) + xlen          # logical end of the XML with a 10-character GUID
    need = (-end) % 1020                              # extra GUID characters to end exactly on a boundary
    deltas = range(0, 1020) if tier == "thorough" else [need + d for d in (-2, -1, 0, 1, 2)] + [need + 1020]
    out = []
    for d in deltas:
        if 10 + d < 1:
            continue
        out.append(progs.prog(f"xmlend{d - need}", [progs.new("g" * (10 + d)), progs.pc(progs.small_protos()[0], 5, seed=seed), progs.FIN]))
    return out


def run(tier, seed, args):
    v = vlib.Verdict("C02", tier, seed, "model_checking")
    wd = vlib.workdir("C02")
    exe = vlib.build_harness()
    if args.replay:
        filecommon.validate_runs(v, wd, filecommon.split_runs(args.replay), "replay", focus=("C02",))
        return v.finish()
    ps = progs.c01_programs(seed, tier) + progs.c06_programs(seed + 1, tier)
    if tier == "thorough":
        ps += progs.c12_programs(seed + 2, "quick")
    ps += xml_end_sweep(v, wd, exe, seed, tier)
    ps += [p for p in progs.c10_programs(seed, tier) if p["name"].startswith(("finalize_", "abandon_", "two_visuals"))]
    # strings over the XML character domain (C04's generator): the XML of every finalized file must be well-formed
    ps += [dict(p, name="c02_" + p["name"]) for p in progs.c04_programs(seed, "quick") if p["name"].startswith("string") and not p.get("nonxml")]
    filecommon.run_programs(v, wd, exe, ps, "c02", focus=("C02",))
    v.add(states=v.cov.get("trace_events", 0), transitions=v.cov.get("trace_events", 0),
          rule="one case = one successful writer program from the C01 and C06 generators (section starts swept over residues mod 1020); the judge is the TLA+ decoder: whole pages, every page checksum (CRC-32C from the polynomial), header fields, XML well-formed/namespace, offsets outside checksum bytes on sections of the right kind, section/packet lengths and 4-byte alignment, decoded content = API inputs",
          evaluations=v.cov.get("programs", 0), distinct_nontrivial=v.cov.get("traces_validated_against_impl", 0))
    v.assumptions += ["TLC, E57Format/Crc32c, expat XML projection (well-formedness sensor)"]
    return v.finish()
