"""C02 — every finalized file is a well-formed E57 file by an independent decoder."""
import vlib, filecommon, progs


def run(tier, seed, args):
    v = vlib.Verdict("C02", tier, seed, "model_checking")
    wd = vlib.workdir("C02")
    exe = vlib.build_harness()
    if args.replay:
        filecommon.validate_runs(v, wd, filecommon.split_runs(args.replay), "replay", focus=("C02",))
        return v.finish()
    ps = progs.c01_programs(seed, tier) + progs.c06_programs(seed + 1, tier)
    if tier == "thorough":
        ps += progs.c12_programs(seed + 2, "quick")
    filecommon.run_programs(v, wd, exe, ps, "c02", focus=("C02",))
    v.add(states=v.cov.get("trace_events", 0), transitions=v.cov.get("trace_events", 0),
          rule="one case = one successful writer program from the C01 and C06 generators (section starts swept over residues mod 1020); the judge is the TLA+ decoder: whole pages, every page checksum (CRC-32C from the polynomial), header fields, XML well-formed/namespace, offsets outside checksum bytes on sections of the right kind, section/packet lengths and 4-byte alignment, decoded content = API inputs",
          evaluations=v.cov.get("programs", 0), distinct_nontrivial=v.cov.get("traces_validated_against_impl", 0))
    v.assumptions += ["TLC, E57Format/Crc32c, expat XML projection (well-formedness sensor)"]
    return v.finish()
