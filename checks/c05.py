"""C05 — simple reader equals the documented view of the raw data."""
import json, os
import vlib, sweepcommon, progs
from vlib import log


def run_simple(v, wd, exe, ps, tag, focus):
    pp = os.path.join(wd, f"{tag}.progs.ndjson")
    with open(pp, "w") as f:
        for p in ps:
            f.write(json.dumps(p) + "\n")
    tp = os.path.join(wd, f"{tag}.trace.ndjson")
    vlib.harness(exe, ["simple-run", "--progs", pp, "--out", tp])
    r, lines = sweepcommon.validate_sweep(v, wd, "Trace_Simple", tp, focus, tag, lambda e: "opts" + "".join(str(x) for x in e.get("opts", [])) if e.get("ev") == "simple_iter" else e.get("ev"), ctx=None)
    evs = [json.loads(x) for x in lines if '"simple_iter"' in x]
    npts = sum(len(e["res"].get("ok", e["res"].get("got", []))) for e in evs)
    v.add(traces_validated_against_impl=len(ps), iterations=len(evs), points_compared=npts)
    if evs:
        e = dict(evs[len(evs) // 2]); r0 = e["res"]
        e["res"] = {k: (val[:2] if isinstance(val, list) else val) for k, val in r0.items()}
        v.sample(e)
    os.remove(tp)
    return len(evs), npts


def run(tier, seed, args):
    v = vlib.Verdict("C05", tier, seed, "model_checking")
    wd = vlib.workdir("C05")
    exe = vlib.build_harness()
    ps = progs.c05_programs(seed, tier)
    # intensity / colour as scaled integers with a negative scale (legal): the simple iterator must exist for them at all
    ps += [dict(p, name="c05_" + p["name"]) for p in progs.c13_programs(seed, tier) if p["name"].startswith("sint_neg_scale")]
    # foreign layouts from the TLA+ encoder (packets that complete no point, index/ignored packets, cuts inside values)
    # incl. invalid-state values outside their documented set, which the real writer cannot produce
    import c03, materialize
    enc = [c for c in c03.encoder_cases(wd, False) if c["name"].startswith(("s4", "s1-"))]
    if tier == "quick":
        enc = [c for c in enc if c["name"].startswith("s4")][::2] + [c for c in enc if c["name"].startswith("s1-")][::9]
    opts = [[True, True, False, True, True, True], [False, False, False, False, False, False], [True, True, True, True, False, False]]
    for i, c in enumerate(enc):
        img, scene = materialize.build_file([c], v=i % 6, guid=f"enc-{i}")
        ps.append({"name": "enc:" + c["name"], "image_bytes": list(img), "steps": [{"op": "new"}, {"op": "pc", "pose_matrix": None}], "opts": opts})
    # damaged variants of the multi-packet file: where the raw iterator fails, the simple iterator fails after the same points
    for mp in ([p] for p in ps if p["name"] in ("view_multi_packet", "view_multi_packet_wide")):
        pp = os.path.join(wd, "mp.ndjson"); tp = os.path.join(wd, "mp.trace")
        json.dump(dict(mp[0], read=[]), open(pp, "w"))
        vlib.harness(exe, ["e57-run", "--progs", pp, "--out", tp])
        img = None
        for line in open(tp):
            if '"ev":"final"' in line:
                img = bytes(json.loads(line)["bytes"])
        os.remove(tp)
        if img:
            npages = len(img) // 1024
            for k in sorted({1, npages // 3, npages // 2, npages // 2 + 3, (2 * npages) // 3, npages - 3}):
                b = bytearray(img); b[k * 1024 + 300] ^= 0x40
                ps.append({"name": mp[0]["name"] + f"_damaged_page{k}", "image_bytes": list(b), "steps": mp[0]["steps"], "opts": [[True, True, False, True, True, True], [False] * 6], "damaged": True})
    n, npts = run_simple(v, wd, exe, ps, "c05", ("C05",))
    log(f"[C05] {len(ps)} files, {n} iterations (option vectors x point clouds), {npts} points compared with the documented view")
    v.add(states=v.cov.get("trace_events", 0), transitions=v.cov.get("trace_events", 0), exhaustive=False,
          rule="one case = (file, point cloud, option vector): attribute subsets (Cartesian/spherical/both, with and without invalid-state records, colour, intensity, row/column) x data types x all 9 invalid-state patterns x poses "
               "(none, identity, signed-permutation rotations with lattice translations) x all 64 option vectors; every delivered point is compared by TLC with Simple.View computed in exact integer arithmetic",
          evaluations=n, distinct_nontrivial=n)
    v.assumptions += ["inputs restricted to values on which the documented function is exactly computable (1/1024 lattice, quarter-turn angles, permutation rotations); Cartesian->spherical decided for axis-aligned vectors only",
                      "invalid-state values outside their set cannot be produced with the real writer; they are covered through serialised files in C03"]
    return v.finish()
