"""C01 — raw point data survives write -> read exactly."""
import vlib, filecommon, progs
from vlib import log


def run(tier, seed, args):
    v = vlib.Verdict("C01", tier, seed, "model_checking")
    wd = vlib.workdir("C01")
    exe = vlib.build_harness()
    if args.replay:
        filecommon.validate_runs(v, wd, filecommon.split_runs(args.replay), "replay", focus=("C01",))
        return v.finish()
    ps = progs.c01_programs(seed, tier)
    import c02
    ps += c02.xml_end_sweep(v, wd, exe, seed, "quick")
    filecommon.run_programs(v, wd, exe, ps, "c01", focus=("C01",))
    v.add(states=v.cov.get("trace_events", 0), transitions=v.cov.get("trace_events", 0),
          rule="one case = one writer program (section start residue mod 1020 x prototype family x point count incl. packet-capacity boundaries x section mixes); "
               "TLC decodes the produced file with the independent E57Format decoder and compares with the API inputs and with the raw reader's output",
          evaluations=v.cov.get("programs", 0), distinct_nontrivial=v.cov.get("traces_validated_against_impl", 0))
    v.assumptions += ["TLC, E57Format/E57Spec, harness recording code, expat XML projection"]
    return v.finish()
