"""Structure-aware mutation descriptors for C08/C09 (applied by the harness `untrusted-run`).
The structure (field positions) follows E57Format: file header, section headers, packet headers, stream
size tables, numeric XML attributes and texts, XML structure. Pages are re-sealed by the harness so that the
mutations reach the parsers; a second family leaves pages unsealed (raw byte damage, truncation, extension)."""
import random, re, struct

PAGE, PAYLOAD = 1024, 1020


def payload(img):
    return b"".join(img[k:k + PAYLOAD] for k in range(0, len(img), PAGE))


def le(v, n):
    return list((v & ((1 << (8 * n)) - 1)).to_bytes(n, "little"))


def boundary(v, n, size):
    m = (1 << (8 * n)) - 1
    vals = {0, 1, 2, 3, 4, 5, 7, 8, 16, 47, 48, 1019, 1020, 1023, 1024, 1025, 2048, v + 1, v - 1, v + 4, v - 4, v + 16, 0xFFFF, 0x10000, 1 << 31, (1 << 31) - 1, 1 << 63, (1 << 63) - 1, m, m - 1, size, size + 1, size - 1, size * 2, v ^ 0x80, v * 2}
    return sorted({x & m for x in vals if x >= 0} - {v & m})


def phys2log(p):
    return p - 4 * (p // PAGE)


def walk_sections(img, L, xml):
    """logical offsets of numeric binary fields: (name, logical offset, width, current value)"""
    fields = [("hdr.major", 8, 4), ("hdr.minor", 12, 4), ("hdr.length", 16, 8), ("hdr.xmloff", 24, 8), ("hdr.xmllen", 32, 8), ("hdr.pagesize", 40, 8), ("hdr.sig", 0, 8)]
    out = [(n, o, w, int.from_bytes(L[o:o + w], "little")) for n, o, w in fields]
    for m in re.finditer(rb'type="CompressedVector" fileOffset="(\d+)" recordCount="(\d+)"', xml):
        lp = phys2log(int(m.group(1)))
        out += [("cv.id", lp, 1, L[lp]), ("cv.len", lp + 8, 8, int.from_bytes(L[lp + 8:lp + 16], "little")),
                ("cv.dataoff", lp + 16, 8, int.from_bytes(L[lp + 16:lp + 24], "little")), ("cv.idxoff", lp + 24, 8, int.from_bytes(L[lp + 24:lp + 32], "little"))]
        seclen = int.from_bytes(L[lp + 8:lp + 16], "little")
        pos, end, npk = lp + 32, lp + seclen, 0
        while pos + 6 <= end and npk < 4:
            plen = int.from_bytes(L[pos + 2:pos + 4], "little") + 1
            cnt = int.from_bytes(L[pos + 4:pos + 6], "little")
            out += [(f"pk{npk}.type", pos, 1, L[pos]), (f"pk{npk}.flags", pos + 1, 1, L[pos + 1]), (f"pk{npk}.len", pos + 2, 2, plen - 1), (f"pk{npk}.count", pos + 4, 2, cnt)]
            for i in range(min(cnt, 8)):
                o = pos + 6 + 2 * i
                out.append((f"pk{npk}.size{i}", o, 2, int.from_bytes(L[o:o + 2], "little")))
            if L[pos] == 1 and pos + 6 + 2 * cnt < end:
                out.append((f"pk{npk}.data0", pos + 6 + 2 * cnt, 1, L[pos + 6 + 2 * cnt]))
            pos += max(plen, 4); npk += 1
    for m in re.finditer(rb'type="Blob" fileOffset="(\d+)" length="(\d+)"', xml):
        lp = phys2log(int(m.group(1)))
        out += [("blob.id", lp, 1, L[lp]), ("blob.len", lp + 8, 8, int.from_bytes(L[lp + 8:lp + 16], "little"))]
    return out


XML_VALUES = ["0", "1", "-1", "65535", "2147483648", "9223372036854775807", "9223372036854775808", "18446744073709551615", "18446744073709551616",
              "-9223372036854775808", "-9223372036854775809", "NaN", "inf", "-inf", "1e999", "-1e999", "1e-999", "5e-324", "-5e-324", "1e-310", "-0.0", "1.7976931348623157e308", "-1.7976931348623157e308", "", "abc", " 1 ", "0x10", "1.5", "+7", "00", "1e3"]


def xml_mutations(xml, r, per_site=None):
    """(from, to, nth) replacements of numeric attribute values, numeric texts, types and structure"""
    text = xml.decode("utf-8", "replace")
    muts = []
    # numeric attributes
    for m in re.finditer(r'(\w+)="(-?[0-9][0-9.eE+\-]*|NaN|inf|-inf)"', text):
        key, val = m.group(1), m.group(2)
        if key in ("version",):
            continue
        frm = f'{key}="{val}"'
        nth = text[:m.start()].count(frm)
        vals = XML_VALUES if per_site is None else r.sample(XML_VALUES, per_site)
        if val.lstrip("-").isdigit():
            vals = list(vals) + [str(int(val) + 1), str(int(val) - 1), str(int(val) + 4), str(int(val) * 2)]
        for to in vals:
            muts.append((f"xmlattr:{key}={to}", frm, f'{key}="{to}"', nth))
    # numeric element texts
    for m in re.finditer(r'<(\w+) type="(Integer|Float|ScaledInteger)"([^>]*)>([^<]*)</\1>', text):
        tag, ty, rest, val = m.groups()
        frm = m.group(0)
        nth = text[:m.start()].count(frm)
        vals = XML_VALUES if per_site is None else r.sample(XML_VALUES, per_site)
        if ty == "Float" and per_site is not None:
            # the edges of the float format are always tried on float texts (limits, bounds, poses)
            vals = list(dict.fromkeys(list(vals) + ["5e-324", "-5e-324", "NaN", "inf", "-inf", "1e-310", "1.7976931348623157e308"]))
        for to in vals:
            muts.append((f"xmltext:{tag}={to}", frm, f'<{tag} type="{ty}"{rest}>{to}</{tag}>', nth))
        muts.append((f"xmltype:{tag}", frm, f'<{tag} type="String"{rest}>{val}</{tag}>', nth))
        muts.append((f"xmlnotype:{tag}", frm, f'<{tag}{rest}>{val}</{tag}>', nth))
    # type attributes of structures / vectors / blobs / compressed vectors
    for ty in ("Structure", "Vector", "CompressedVector", "Blob", "String"):
        for k in range(min(text.count(f'type="{ty}"'), 6)):
            for to in ("Integer", "Float", "Structure", "Nonsense", ""):
                if to != ty:
                    muts.append((f"xmltype:{ty}#{k}->{to}", f'type="{ty}"', f'type="{to}"', k))
    # structure: remove / duplicate / rename elements (single-line elements as the writer emits them)
    for m in re.finditer(r'<(\w+)( [^>]*)?>[^<\n]*</\1>\n|<(\w+)( [^>]*)?/>\n', text):
        frm = m.group(0)
        tag = m.group(1) or m.group(3)
        nth = text[:m.start()].count(frm)
        muts.append((f"xmldel:{tag}", frm, "", nth))
        muts.append((f"xmldup:{tag}", frm, frm + frm, nth))
        muts.append((f"xmlrename:{tag}", frm, frm.replace(tag, tag + "X"), nth))
    for tag in ("prototype", "points", "data3D", "images2D", "vectorChild", "pose", "rotation", "translation", "cartesianBounds", "colorLimits", "intensityLimits",
                "visualReferenceRepresentation", "pinholeRepresentation", "sphericalRepresentation", "cylindricalRepresentation", "e57Root"):
        if f"<{tag} " in text or f"<{tag}>" in text:
            muts.append((f"xmlrenameopen:{tag}", f"<{tag} ", f"<{tag}Y ", 0))
            muts.append((f"xmlclose:{tag}", f"</{tag}>", "", 0))
    muts.append(("xmlempty", text, "", 0))
    muts.append(("xmlnotxml", text[:40], "\x00\x01 not xml <<<", 0))
    muts.append(("xmlentity", "<e57Root", '<!DOCTYPE x [<!ENTITY a "aaaaaaaaaa"><!ENTITY b "&a;&a;&a;&a;&a;&a;&a;&a;">]><e57Root', 0))
    # entity expansion: nested internal entities (10 levels of 10 references each would expand to 10^10 characters)
    lv = "".join(f'<!ENTITY l{i} "' + f"&l{i - 1};" * 10 + '">' for i in range(1, 10))
    muts.append(("xmlentitybomb", "<e57Root", '<!DOCTYPE x [<!ENTITY l0 "aaaaaaaaaa">' + lv + ']><e57Root', 0))
    muts.append(("xmlentityquad", "<e57Root", '<!DOCTYPE x [<!ENTITY qa "' + "a" * 3000 + '"><!ENTITY qb "' + "&qa;" * 250 + '">]><e57Root', 0))
    muts.append(("xmlentityquad-used", '<guid type="String"><![CDATA[', '<guid type="String">' + "&qb;" * 400 + '<![CDATA[', 0))
    muts.append(("xmlentitybomb-used", '<guid type="String"><![CDATA[', '<guid type="String">&l9;<![CDATA[', 0))
    return muts


def generate(bases, seed, tier):
    """bases: list of image bytes. Returns list of mutation descriptors."""
    r = random.Random(seed)
    out = []
    for bi, img in enumerate(bases):
        L = payload(img)
        size = len(img)
        xoff, xlen = int.from_bytes(img[24:32], "little"), int.from_bytes(img[32:40], "little")
        lo = phys2log(xoff)
        xml = L[lo:lo + xlen]
        out.append({"base": bi, "name": f"b{bi}:unmodified", "edits": [], "reseal": False})
        singles = []
        # binary fields x boundary class (re-sealed)
        for name, off, w, v in walk_sections(img, L, xml):
            vals = boundary(v, w, size)
            # small lengths that pass alignment checks (4k - 1 for the "length minus one" fields) are always tried
            must = [x for x in (3, 7, 11, 15, 19, 0, (1 << (8 * w)) - 1) if x != v and x < (1 << (8 * w))] if w == 2 else [0, (1 << (8 * w)) - 1]
            if tier == "quick":
                vals = sorted(set(r.sample(vals, min(len(vals), 6)) + must))
            else:
                vals = sorted(set(vals + must))
            for nv in vals:
                singles.append({"base": bi, "name": f"b{bi}:{name}={nv}", "edits": [{"k": "log", "off": off, "bytes": le(nv, w)}], "reseal": True})
        # XML fields and structure
        xm = xml_mutations(xml, r, per_site=None if tier == "thorough" else 6)
        for nm, frm, to, nth in xm:
            singles.append({"base": bi, "name": f"b{bi}:{nm}#{nth}", "edits": [{"k": "xml", "from": frm, "to": to, "nth": nth}], "reseal": True})
        out += singles
        # directed combinations
        text = xml.decode("utf-8", "replace")
        recs = list(re.finditer(r'minimum="(-?\d+)" maximum="(-?\d+)"', text))
        if recs and 'type="Float"' not in text.split("<prototype", 1)[-1].split("</prototype>", 1)[0]:
            # every record of the (first) prototype gets minimum = maximum: all bit sizes are zero
            edits, seen = [], {}
            proto_txt = text.split("<prototype", 1)[-1].split("</prototype>", 1)[0]
            for m in re.finditer(r'minimum="(-?\d+)" maximum="(-?\d+)"', proto_txt):
                frm = m.group(0)
                k = seen.get(frm, 0); seen[frm] = k
                edits.append({"k": "xml", "from": frm, "to": f'minimum="{m.group(1)}" maximum="{m.group(1)}"', "nth": 0})
            out.append({"base": bi, "name": f"b{bi}:all-records-zero-width", "edits": edits, "reseal": True})
            out.append({"base": bi, "name": f"b{bi}:all-records-zero-width+count", "edits": edits + [{"k": "xml", "from": 'recordCount="', "to": 'recordCount="9', "nth": 0}], "reseal": True})
        for xl, fl in ((1 << 28, 1 << 40), (1 << 33, 1 << 62), ((1 << 64) - 1, (1 << 64) - 1), (size * 4, size * 8)):
            out.append({"base": bi, "name": f"b{bi}:hdr.xmllen={xl}&hdr.length={fl}",
                        "edits": [{"k": "log", "off": 32, "bytes": le(xl, 8)}, {"k": "log", "off": 16, "bytes": le(fl, 8)}], "reseal": True})
        # page sizes that divide the file but not by four (validate_crc / raw_xml take the page size from the file)
        for d in [d for d in list(range(5, 260)) + [1022, 1023, 1025, 1026, 2046, 3070] if size % d == 0 and d % 4 != 0][:24]:
            out.append({"base": bi, "name": f"b{bi}:hdr.pagesize={d}(divides)", "edits": [{"k": "log", "off": 40, "bytes": le(d, 8)}], "reseal": False})
        # entity expansion that grows with the square of the XML size: a long entity, an entity of many references to it, many uses
        quad = [m for m in xm if m[0].startswith("xmlentityquad")]
        if len(quad) == 2:
            out.append({"base": bi, "name": f"b{bi}:xmlentityquad+use", "edits": [{"k": "xml", "from": m[1], "to": m[2], "nth": m[3]} for m in quad], "reseal": True})
        # billion laughs: the entity definitions and a use of the outermost entity in the file GUID
        bomb = [m for m in xm if m[0].startswith("xmlentitybomb")]
        if len(bomb) == 2:
            out.append({"base": bi, "name": f"b{bi}:xmlentitybomb+use", "edits": [{"k": "xml", "from": m[1], "to": m[2], "nth": m[3]} for m in bomb], "reseal": True})
        # a blob enlarged consistently in its XML descriptor and in its section header (past the end of the file and beyond)
        for m in list(re.finditer(r'type="Blob" fileOffset="(\d+)" length="(\d+)"', text))[:4]:
            lp = phys2log(int(m.group(1)))
            frm = m.group(0)
            nth = text[:m.start()].count(frm)
            for nl in (int(m.group(2)) + 6000, size * 3, 1 << 24, 1 << 40, 1 << 63, (1 << 64) - 20):
                for seclen in (16 + nl + (4 - nl % 4) % 4, nl):
                    out.append({"base": bi, "name": f"b{bi}:blob@{m.group(1)}.length={nl}&seclen={seclen}",
                                "edits": [{"k": "xml", "from": frm, "to": f'type="Blob" fileOffset="{m.group(1)}" length="{nl}"', "nth": nth},
                                          {"k": "log", "off": lp + 8, "bytes": le(seclen, 8)}], "reseal": True})
        # pairs (pairwise sampling)
        npairs = 20000 if tier == "thorough" else 60
        for _ in range(npairs):
            a, b = r.sample(singles, 2)
            # xml edits first (they rebuild the file), then binary ones
            e = sorted(a["edits"] + b["edits"], key=lambda x: 0 if x["k"] == "xml" else 1)
            out.append({"base": bi, "name": a["name"] + " & " + b["name"].split(":", 1)[1], "edits": e, "reseal": True})
        # unsealed damage: byte mutations, truncations, extensions
        nraw = 12000 if tier == "thorough" else 40
        for k in range(nraw):
            kind = k % 4
            if kind == 0:
                off = r.randrange(size)
                out.append({"base": bi, "name": f"b{bi}:rawbyte@{off}", "edits": [{"k": "phys", "off": off, "bytes": [r.randrange(256)]}], "reseal": False})
            elif kind == 1:
                off = r.randrange(size); n = r.randrange(1, 64)
                out.append({"base": bi, "name": f"b{bi}:rawrun@{off}+{n}", "edits": [{"k": "phys", "off": off, "bytes": [r.randrange(256) for _ in range(n)]}], "reseal": r.random() < 0.5})
            elif kind == 2:
                n = r.choice([0, 1, 47, 48, 49, 1023, 1024, 1025, size - 1, size - 1024, r.randrange(size)])
                out.append({"base": bi, "name": f"b{bi}:trunc{n}", "edits": [{"k": "trunc", "len": max(n, 0)}], "reseal": False})
            else:
                n = r.choice([1, 4, 1023, 1024, 2048])
                out.append({"base": bi, "name": f"b{bi}:append{n}", "edits": [{"k": "append", "bytes": [r.randrange(256) for _ in range(n)]}], "reseal": r.random() < 0.5})
    return out
