"""XML projection: XML text -> abstract tree (JSON) for the TLA+ Xml/Format modules.
Uses expat (namespace mode), an XML parser independent of roxmltree. The projection does no
interpretation of E57 semantics; it only adds mechanical numeric conversions that TLC's 32-bit
JSON reader cannot do (DESIGN 4.5, Appendix D)."""
import json, re, struct, sys
from xml.parsers import expat

FLOAT_RE = re.compile(r"^[+-]?((\d+(\.\d*)?|\.\d+)([eE][+-]?\d+)?|inf|infinity|nan)$", re.I)
INT_RE = re.compile(r"^[+-]?\d+$")


def limbs(u):
    u &= (1 << 64) - 1
    return [u & 0xFFFF, (u >> 16) & 0xFFFF, (u >> 32) & 0xFFFF, (u >> 48) & 0xFFFF]


def val(s):
    """string + mechanical numeric readings (as Rust's FromStr would read them, no trimming)"""
    v = {"s": s}
    if INT_RE.match(s):
        n = int(s)
        if -(1 << 63) <= n < (1 << 63):
            v["l"] = limbs(n)          # i64 reading
        if 0 <= n < (1 << 64):
            v["u"] = limbs(n)          # u64 reading
        if 0 <= n < (1 << 31):
            v["i"] = n
    t = s
    if t in ("INF", "+INF"):
        t = "inf"
    elif t == "-INF":
        t = "-inf"
    if FLOAT_RE.match(t):
        try:
            f = float(t)
        except OverflowError:
            f = float("inf")
        if f != f:
            v["f"] = limbs(0x7FF8000000000000)
            v["g"] = limbs(0x7FC00000)
        else:
            v["f"] = limbs(struct.unpack("<Q", struct.pack("<d", f))[0])
            try:
                g = struct.unpack("<I", struct.pack("<f", f))[0]
            except OverflowError:
                g = 0x7F800000 if f > 0 else 0xFF800000
            v["g"] = limbs(g)
    return v


def project(xml_bytes):
    p = expat.ParserCreate(namespace_separator="|")
    p.namespace_prefixes = True
    p.buffer_text = True
    p.ordered_attributes = True
    root = {"kids": [], "nsdecl": []}
    stack = [root]
    pending_ns = []

    def split(name):
        parts = name.split("|")
        if len(parts) == 1:
            return "", parts[0], ""
        if len(parts) == 2:
            return parts[0], parts[1], ""
        return parts[0], parts[1], parts[2]

    def start_ns(prefix, uri):
        pending_ns.append({"pfx": prefix or "", "uri": uri or ""})

    def start(name, attrs):
        ns, local, pfx = split(name)
        al = []
        for i in range(0, len(attrs), 2):
            ans, ak, apfx = split(attrs[i])
            al.append({"ns": ans, "k": ak, "pfx": apfx, "v": val(attrs[i + 1])})
        node = {"ns": ns, "name": local, "pfx": pfx, "attrs": al, "kids": [], "text": "",
                "pos": p.CurrentByteIndex, "nsdecl": list(pending_ns), "ntext": 0}
        pending_ns.clear()
        stack[-1]["kids"].append(node)
        stack.append(node)

    def end(name):
        n = stack.pop()
        n["text"] = val(n["text"])
        n["endpos"] = p.CurrentByteIndex

    def chars(data):
        n = stack[-1]
        if "text" in n and isinstance(n["text"], str):
            n["text"] += data
            n["ntext"] += 1

    p.StartElementHandler = start
    p.EndElementHandler = end
    p.CharacterDataHandler = chars
    p.StartNamespaceDeclHandler = start_ns
    try:
        p.Parse(xml_bytes, True)
    except expat.ExpatError as e:
        return {"wf": 0, "error": str(e), "root": {"ns": "", "name": "", "pfx": "", "attrs": [], "kids": [], "text": val(""), "pos": 0, "nsdecl": [], "ntext": 0}}
    return {"wf": 1, "error": "", "root": root["kids"][0]}


PAGE, PAYLOAD = 1024, 1020


def payload(img):
    out = bytearray()
    for k in range(len(img) // PAGE):
        out += img[k * PAGE:k * PAGE + PAYLOAD]
    return bytes(out)


def xml_of_image(img):
    """XML bytes designated by the file header of a paged image (None if the header is unusable)."""
    if len(img) < 48:
        return None
    xoff = int.from_bytes(img[24:32], "little")
    xlen = int.from_bytes(img[32:40], "little")
    if xoff % PAGE >= PAYLOAD or xlen > 50_000_000:
        return None
    lo = xoff - 4 * (xoff // PAGE)
    L = payload(img)
    if lo + xlen > len(L) or xlen == 0:
        return None
    return L[lo:lo + xlen]


def augment_trace(src, dst):
    """Add the projected XML tree to every `final` event of a trace."""
    n = 0
    with open(src) as f, open(dst, "w") as o:
        for line in f:
            if '"ev":"final"' in line:
                e = json.loads(line)
                img = bytes(e["bytes"])
                x = xml_of_image(img)
                if x is None:
                    e["xml"] = {"wf": 0, "error": "header does not designate an XML section",
                                "root": project(b"<x/>")["root"]}
                else:
                    e["xml"] = project(x)
                o.write(json.dumps(e, separators=(",", ":")) + "\n")
                n += 1
            else:
                o.write(line)
    return n


if __name__ == "__main__":
    if sys.argv[1] == "augment":
        print(augment_trace(sys.argv[2], sys.argv[3]))
    else:
        print(json.dumps(project(open(sys.argv[1], "rb").read()), indent=1))
