#!/usr/bin/env python3
"""Regenerates /verif/MANIFEST.json from the table below (kept in one place so it stays valid)."""
import json, os, subprocess
VERIF = os.path.dirname(os.path.dirname(os.path.abspath(__file__)))
hook_commits = subprocess.run("git -C /repo log --format=%H --grep='^verif hooks'", shell=True, capture_output=True, text=True).stdout.split()

CHECKS = {
 "C11": dict(category="model_checking", technique="TLA+ PageSpec: exhaustive TLC search at the real page size, every model edge replayed on the real PagedWriter/PagedReader, randomised histories trace-validated by TLC",
   text="Exhaustive within bounds (all histories to depth 3/4 over boundary-focused sizes and positions, real 1020+4 page, CRC-32C computed in TLA+), every explored transition replayed on the real types with observer digests, plus long random histories validated event-by-event by TLC against the ghost logical stream. Bounded, not a proof.",
   note="Trusts TLC, the PageSpec specification (guarded by its own invariants and coverage), and the harness's recording code. Behaviour after a refused physical_seek is not claimed.", ref="6 C11"),
}
FILE_NOTE = "Trusts TLC, the E57Format/E57Spec specification (an independent decoder written from the standard), the harness's recording code and the expat-based XML projection."
CHECKS.update({
 "C01": dict(category="model_checking", technique="TLA+ E57Spec/E57Format: TLC trace validation of recorded writer/reader executions; independent TLA+ decoder of the produced bytes",
   text="Every writer program (section start swept over residues mod 1020, prototype families over all data types and integer widths, point counts at packet-capacity boundaries, section mixes) is executed on the real API; TLC replays the calls through the abstract writer, decodes the produced file with the TLA+ decoder and requires the decoded points, the reported prototype/record count and the raw reader's output to equal the API inputs bit for bit. Bounded sampling of an infinite input space, each case decided exactly.",
   note=FILE_NOTE, ref="6 C01"),
 "C02": dict(category="model_checking", technique="TLA+ E57Format decoder + Crc32c as judge of every finalized file (TLC trace validation)",
   text="Every finalized file of the C01/C06 program families is judged by the TLA+ decoder: whole pages, every page checksum recomputed from the CRC-32C polynomial, header fields, XML well-formed and rooted in the E57 namespace, every published offset outside checksum bytes on a section of the right kind, section/packet lengths and alignment consistent, decoded content equal to the API inputs.",
   note=FILE_NOTE, ref="6 C02"),
 "C06": dict(category="model_checking", technique="TLA+ E57Spec/E57Format: TLC trace validation; blob sections located and compared by the TLA+ decoder",
   text="Blob lengths over every residue mod 4 around the page payload size, start residues mod 1020, images of all four representations with/without mask between point clouds: descriptors must designate blob sections holding exactly the input bytes (TLA+ decoder) and the reader must return exactly those bytes and lengths.",
   note=FILE_NOTE, ref="6 C06"),
 "C12": dict(category="model_checking", technique="TLA+ abstract bit codec (E57Format.StreamEncodes) checked by TLC against streams extracted from real files",
   text="For every width 0..64 (thorough; boundary widths in quick), negative and extreme minima, values at range extremes and alternating bit patterns, TLC extracts each record's byte stream from the data packets of the file the real writer produced and requires it to be exactly the LSB-first packing of value-min at width BitLen(max-min), contiguous across packets, zero padded; the real reader must return the values.",
   note=FILE_NOTE, ref="6 C12"),
})
CHECKS["C07"] = dict(category="model_checking", technique="TLA+ PageSpec reader model with altered pages: exhaustive TLC search, every edge replayed on the real PagedReader; Trace_C07 validation of exhaustive single-bit flips of real files in both CRC builds",
   text="Page level: all reader histories (seek/read/align, reads after failures) over small images with every subset of up to 2/3 altered pages, exhaustively in TLC with the verdict/no-stale-data properties, each edge replayed on the real PagedReader. File level: every single-bit flip of small real files (plus sampled 2/3-bit flips, bursts, overwrites), several operation orders on one reader, outcome classes validated by TLC (fail or identical to the unaltered file; validate_crc fails iff a page is altered); software and crc32c builds give byte-identical files whose every page seal equals CRC-32C computed in TLA+.",
   note="Trusts TLC, PageSpec/Crc32c, harness recording (outcome classes are byte comparisons with the unaltered file's result) and its independent CRC used to confirm that an alteration is detectable. The Hamming-distance clause follows analytically from the pinned polynomial.", ref="6 C07")
CHECKS["C17"] = dict(category="model_checking", technique="TLA+ PageSpec reader model (PropFresh) checked exhaustively by TLC with every edge replayed on the real PagedReader; Trace_C17 validation of exhaustive file-level operation sequences",
   text="The only state shared between read operations is the page reader: its model is searched exhaustively (all histories incl. failures on altered pages) with the property that every read returns what an empty-cache reader would, each edge replayed on the real type with per-page cache probes. At file level every sequence of operations up to depth 2/3 (complete and partly consumed raw/simple iterations, blobs, xml, listings) on pristine, page-damaged and section-damaged real files is run on one reader and compared with fresh readers; TLC validates the comparison classes.",
   note="Trusts TLC, PageSpec, harness recording (classes are byte comparisons of canonical result text).", ref="6 C17")
CHECKS["C15"] = dict(category="fault_enumeration", technique="recorded device write sequences cut at every prefix and torn position, judged by TLC against the commit-ordering specification Trace_C15",
   text="For each writer program (with and without the top-level finalize, section headers straddling page boundaries) the device write sequence is recorded and every prefix image plus torn cuts of the next write (every cut of the final header patch in quick, every cut of every write in thorough) is opened with the real reader; TLC requires: accepted => finalize had started, listing incl. header equals the completed file's, every read operation fails or equals the completed file's result.",
   note="Assumes writes reach the device in issue order (as the property states). Trusts TLC, the recording device and the byte comparisons made by the harness.", ref="6 C15")
CHECKS["C16"] = dict(category="fault_enumeration", technique="exhaustive single-fault injection over the device operation sequence and short-transfer schedules, validated by TLC against Trace_C16; chunked runs re-judged by the file-level TLA+ decoder",
   text="For each writer and reader program a fault-free run counts the device operations; the program is re-run once per operation index (reads, writes, seeks, flushes) with an error injected there: the call in progress must return Err, no panic, finalize Ok only if the write-back device holds the complete file. Short-transfer schedules (incl. 1-byte transfers) must give byte-identical files and identical read results; chunked runs are also decoded by the TLA+ decoder.",
   note="Single fault per run; behaviour after a failed call is not constrained; a fault inside a destructor cannot be reported. Trusts TLC and the instrumented device.", ref="6 C16")
CHECKS["C10"] = dict(category="model_checking", technique="TLA+ E57Spec acceptance relation (ProtoVerdict, PointFits, call-order rules) checked by TLC trace validation of generated valid/invalid writer programs",
   text="Programs probing the acceptance relation of the specification (every subset of each attribute group, invalid-state type variants, type rules, duplicates, constant/full-range records, extension names, wrong arity/type, integers just outside their range at every bit phase, abandoned writers, second projection, image without representation, finalize twice, empty GUID) run on the real API; TLC requires every call to return Ok or Err as the relation says (never panic) and every completed file to decode and read back.",
   note=FILE_NOTE + " Name well-formedness is asserted by the generator; cases the documented rules do not settle are 'any'.", ref="6 C10")
CHECKS["C04"] = dict(category="model_checking", technique="TLA+ E57Spec/E57Meta: abstract writer scene vs reader report, field by field, by TLC trace validation; transcribed E57 XML schema",
   text="Setter programs (each optional field alone / all / none, setters twice and reset, every string position over the XML character domain incl. '<', '&', ']]>', whitespace-only, astral code points, every float position over -0, subnormal, MAX, inf, NaN, all four image representations with/without mask, extension URLs, limit overrides) run on the real writer and reader; TLC requires report = scene for every field, schema-conformant XML, and xml() = the file's XML bytes.",
   note=FILE_NOTE + " NaN payloads canonicalised.", ref="6 C04")
CHECKS["C14"] = dict(category="model_checking", technique="TLA+ E57Meta: exact bounds (IEEE-754 total order on bit limbs) and limit defaults computed by TLC from the recorded points, compared with what the reader reports",
   text="Attribute-group subsets x coordinate types (single, double, scaled integers with dyadic positive and negative scale) x point sequences (empty, single, constant, monotone, sign-mixed with +-0, extremes; distinct extremes per axis at distinct indices): TLC computes min/max of the real values and of index attributes and requires the reported bounds to be present exactly for the groups in the prototype and equal; default limits = declared type range, complete overrides as given.",
   note=FILE_NOTE + " Real values are mechanical conversions recorded by the harness (exact for the values used); NaN excluded.", ref="6 C14")
CHECKS["C18"] = dict(category="model_checking", technique="TLA+ E57Meta schema table drives exhaustive foreign-element insertions; TLC trace validation requires report = un-extended scene",
   text="The schema table of the specification (printed by TLC) yields, for every element outside a prototype, every standard child name; each is inserted as a foreign-namespace element of the same type with plausible content (plus fresh names, nested structures) at the first/last (quick) or every (thorough) child index of the fully populated base file through finalize_customized_xml; foreign attributes on every element; extension records with standard local names in prototypes. TLC requires the reader's report, points and blobs to equal the un-extended scene.",
   note=FILE_NOTE, ref="6 C18")
SIMPLE_NOTE = "Trusts TLC, the Simple specification, the harness's mechanical projection of numbers onto exact grids (1/1024, quarter turns, 1/4, 1/65536). Restricted to inputs on which the documented function is exactly computable with integers; floating-point accuracy on arbitrary operands is not decided."
CHECKS["C05"] = dict(category="model_checking", technique="TLA+ Simple.View (exact integer arithmetic) checked by TLC trace validation against the real simple and raw iterators for all 64 option vectors",
   text="Files with every attribute subset (Cartesian/spherical/both, with/without invalid-state records, colour, intensity, row/column), data types single/double/scaled integer, all 9 invalid-state patterns and signed-permutation poses are read with both iterators under all 2^6 option vectors; TLC recomputes every delivered point from the raw values with Simple.View (validity, scaled integers, presence rules, spherical->Cartesian, Cartesian->spherical on axis-aligned vectors, grey from intensity, pose on valid Cartesian only, option independence by construction) and requires equality, same count and order, failure only where allowed.",
   note=SIMPLE_NOTE, ref="6 C05")
CHECKS["C13"] = dict(category="model_checking", technique="TLA+ Simple.NormOk (exact rational on integer grids) checked by TLC trace validation over value sweeps",
   text="For every attribute data type (integer incl. degenerate and full range, scaled integer, single/double declared and undeclared) x limit settings (absent, partial, equal, type-mismatched, extreme, reset) x both switches, value sweeps (every integer of small ranges, lattice points) are read with the simple iterator; TLC requires (v-min)/(max-min) within one 1/65536 unit, clamped, 0 at min, 1 at max, 0 for degenerate ranges, never NaN/inf, monotone; unnormalised values unchanged.",
   note=SIMPLE_NOTE + " Limits of mixed kinds and overridden scaled-integer limits are unspecified by the statement (type range used).", ref="6 C13")
CHECKS["C20"] = dict(category="exploration", technique="tool runs recorded as traces and validated by TLC against the Trace_Tools action specification (each tool = one action over Writer/Reader state)",
   text="The real workspace binaries are built from /repo and run: XYZ->E57->XYZ over files covering all 8-bit colours, f32 extremes/subnormals/-0, short/empty/extra-column lines and several data packets (coordinates compared as f32 bit patterns, -0 = +0); check-crc on intact files and files with one altered bit per page (exit status); extract-xml vs raw_xml; unpack vs xml(), blob(), pointcloud_raw() (CSV cells parsed back). TLC validates the relations stated in the property.",
   note="The tools have no state of their own; the specification is a thin relation per tool. Trusts TLC, the orchestrator's parsing of tool outputs, and lib-dump (what the library returns).", ref="6 C20")
CHECKS["C19"] = dict(category="model_checking", technique="TLA+ acceptance relation (E57Spec.ProtoVerdict) decides which copies must succeed; TLC trace validation of copy / copy-of-copy / double-write executions",
   text="Bundled test data, writer files over the C01/C04/C06 generators (incl. full 64-bit range, min = max, extension records) and files of the independent encoder are copied through the public API, the copy is copied again and written twice. TLC requires: the copy succeeds whenever every reported prototype obeys the documented rules (reader output is a subset of writer input), masked reports, points and image data of the copy equal the source's, the second copy equals the first in full, two writes are byte-identical.",
   note="Section/blob offsets, the library version string and the writer-derived bounds are masked in the source-vs-copy comparison (the API cannot set them). Trusts TLC, the acceptance relation, harness equality flags for bulk data.", ref="6 C19")
CHECKS["C03"] = dict(category="model_checking", technique="independent TLA+ encoder (E57Encode) with explicit layout choices, model-level round trip against the TLA+ decoder, every case materialised and read by the real reader, TLC trace validation against the scene",
   text="TLC enumerates scenes x layouts (every cut position of short streams, skewed/unequal cuts per record, three and four packets incl. packets that complete no point, index and ignored packets between data packets, section start swept across the page boundary, every integer width at all bit phases) and proves decode(encode(case)) = case on the model; each case becomes a real file (XML lexical variants: attribute order and quotes, comments, prefixed E57 namespace, number forms, omitted optional attributes, self-closing, no declaration); the real reader must open it, report the encoded prototype/count/guids, return exactly the encoded values from the raw iterator and the same count from the simple iterator.",
   note="Legality of layouts is the standard as transcribed in E57Encode/E57Format (each guards the other through the model-level round trip). XML text comes from the materialiser, section bytes from the TLA+ encoder. 1024-byte pages, no string-typed records.", ref="6 C03")
NOT_APPLICABLE = {}

def main():
    props = [json.loads(l)["id"] for l in open(os.path.join(VERIF, "properties.jsonl"))]
    checks = []
    for pid in props:
        if pid not in CHECKS: continue
        c = CHECKS[pid]
        checks.append({"property_id": pid, "quick_cmd": f"bin/check {pid} --tier quick", "thorough_cmd": f"bin/check {pid} --tier thorough",
                       "evidence_file": f"/verif/evidence/{pid}.json", "replay_cmd_template": f"bin/check {pid} --replay {{path}}",
                       "engine": "tlc+e57h", "level_claimed": {"category": c["category"], "text": c["text"], "design_ref": c["ref"]},
                       "level_note": c["note"], "technique": c["technique"]})
    na = [{"property_id": p, "reason": NOT_APPLICABLE.get(p, "check not built yet in this session (specification and harness are being extended property by property; see DESIGN.md section 11)")}
          for p in props if p not in CHECKS]
    m = {"version": 1,
         "setup_cmd": "cd /verif/harness && cargo build --release --offline",
         "hooks": {"guard": "--cfg e57_verif", "enable": "harness/.cargo/config.toml passes rustflags --cfg e57_verif to the path dependency on /repo",
                   "baseline_off_cmd": "cd /repo && cargo test --workspace --no-fail-fast --offline", "source_commits": hook_commits, "add_only": True},
         "engines": [{"name": "tlc+e57h", "path": "/verif/bin/check", "serves_properties": [c["property_id"] for c in checks],
                      "kind_free_text": "TLA+ specification in /verif/spec checked by TLC (exhaustive bounded search, edge export, trace validation) bound to the code by the Rust harness /verif/harness (path dependency on /repo's working tree, hooks on)"}],
         "checks": checks, "not_applicable": na,
         "notes": "Every check rebuilds the harness against /repo's current working tree (cargo path dependency). See DESIGN.md."}
    json.dump(m, open(os.path.join(VERIF, "MANIFEST.json"), "w"), indent=1)
    print(len(checks), "checks,", len(na), "not claimed")
if __name__ == "__main__":
    main()
