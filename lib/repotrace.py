"""Converts the NDJSON emitted by the guarded hooks in src/paged_writer.rs / src/paged_reader.rs
(one line per event, tagged with the instance) into Trace_Page runs: one run per page writer /
page reader instance. Begin/ok pairs become one event with a result; a `begin` that is not followed by
its `ok` is a call that returned an error."""
import json


def convert(src, dst, max_img=1 << 20):
    inst = {}
    order = []
    with open(src) as f:
        for line in f:
            try:
                e = json.loads(line)
            except Exception:
                continue
            k = e.pop("inst")
            if k not in inst:
                inst[k] = []; order.append(k)
            inst[k].append(e)
    stats = {"writers": 0, "readers": 0, "readers_without_image": 0, "events": 0, "failed_calls": 0}
    with open(dst, "w") as o:
        def w(ev):
            o.write(json.dumps(ev, separators=(",", ":")) + "\n"); stats["events"] += 1
        for k in order:
            evs = inst[k]
            first = evs[0]["ev"]
            if first == "w_new":
                stats["writers"] += 1
                w({"ev": "reset", "name": "w" + k})
                i = 1
                while i < len(evs):
                    e = evs[i]
                    if e["ev"] == "w_write1":
                        w({"ev": "w_write1", "b": e["b"], "res": {"ok": e["res"]}})
                    elif e["ev"] == "w_flush":
                        if "dev" in e:
                            w({"ev": "w_flush", "res": {"ok": 0}, "dev": e["dev"]})
                        else:
                            w({"ev": "w_flush_nosnap", "res": {"ok": 0}})
                    elif e["ev"] == "w_pos":
                        w({"ev": "w_pos", "res": {"ok": e["res"]}})
                    elif e["ev"] == "w_size":
                        w({"ev": "w_size", "res": {"ok": e["res"]}})
                    elif e["ev"] == "w_seek_begin":
                        # nested flush event(s), then w_seek_ok -- or nothing (the seek was refused)
                        j = i + 1
                        nested = []
                        while j < len(evs) and evs[j]["ev"] == "w_flush":
                            nested.append(evs[j]); j += 1
                        ok = j < len(evs) and evs[j]["ev"] == "w_seek_ok"
                        for n in nested:
                            w({"ev": "w_flush", "res": {"ok": 0}, "dev": n["dev"]} if "dev" in n else {"ev": "w_flush_nosnap", "res": {"ok": 0}})
                        if ok:
                            w({"ev": "w_seek", "pos": e["pos"], "res": {"ok": 0}})
                            i = j
                        else:
                            w({"ev": "w_seek", "pos": e["pos"], "res": {"err": 1}})
                            stats["failed_calls"] += 1
                            break          # behaviour after a refused seek is not claimed
                    i += 1
            elif first == "r_open":
                if evs[0].get("page_size") != 1024 or "img" not in evs[0]:
                    stats["readers_without_image"] += 1
                    continue
                stats["readers"] += 1
                w({"ev": "reset", "name": "r" + k})
                w({"ev": "r_open", "img": evs[0]["img"], "res": {"ok": 0}})
                i = 1
                while i < len(evs):
                    e = evs[i]
                    nxt = evs[i + 1] if i + 1 < len(evs) else {"ev": ""}
                    if e["ev"] == "r_seek_begin":
                        if nxt["ev"] == "r_seek_ok":
                            w({"ev": "r_seek", "off": e["off"], "res": {"ok": nxt["res"]}}); i += 1
                        else:
                            w({"ev": "r_seek", "off": e["off"], "res": {"err": 1}}); stats["failed_calls"] += 1
                    elif e["ev"] == "r_read_begin":
                        if nxt["ev"] == "r_read_ok":
                            w({"ev": "r_read", "n": e["n"], "res": {"ok": nxt["res"]}}); i += 1
                        else:
                            w({"ev": "r_read", "n": e["n"], "res": {"err": 1}}); stats["failed_calls"] += 1
                    elif e["ev"] == "r_align_begin":
                        if nxt["ev"] == "r_align_ok":
                            w({"ev": "r_align", "res": {"ok": 0}}); i += 1
                        else:
                            w({"ev": "r_align", "res": {"err": 1}}); stats["failed_calls"] += 1
                    i += 1
    return stats
