"""Materialiser of the independent encoder: turns a case printed by MC_Encode (section bytes, scene,
logical start) into a complete paged E57 file: header, free space, section, XML with a chosen lexical
variant, page checksums (own table-driven CRC-32C). XML text is generated here from the scene following
the E57 schema; everything binary inside the section comes from the TLA+ encoder."""
import struct

E57NS = "http://www.astm.org/COMMIT/E57/2010-e57-v1.0"
_T = []
for i in range(256):
    c = i
    for _ in range(8):
        c = (c >> 1) ^ 0x82F63B78 if c & 1 else c >> 1
    _T.append(c)


def crc32c(b):
    c = 0xFFFFFFFF
    for x in b:
        c = _T[(c ^ x) & 255] ^ (c >> 8)
    return c ^ 0xFFFFFFFF


def paginate(logical):
    out = bytearray()
    for k in range(0, len(logical), 1020):
        pl = logical[k:k + 1020].ljust(1020, b"\0")
        out += pl + struct.pack(">I", crc32c(pl))
    return bytes(out)


def log2phys(l):
    return l + 4 * (l // 1020)


def i64_of(l):
    u = l[0] | (l[1] << 16) | (l[2] << 32) | (l[3] << 48)
    return u - (1 << 64) if u >= (1 << 63) else u


def f64_of(l):
    u = l[0] | (l[1] << 16) | (l[2] << 32) | (l[3] << 48)
    return struct.unpack("<d", struct.pack("<Q", u))[0]


def f32_of(l):
    return struct.unpack("<f", struct.pack("<I", l[0] | (l[1] << 16)))[0]


def num(x, v):
    """lexical forms of numbers"""
    if isinstance(x, int):
        if v == 3:
            return ("+" if x >= 0 else "-") + "00" + str(abs(x))
        return str(x)
    s = repr(float(x))
    if v == 3:
        if "e" not in s and "inf" not in s and "nan" not in s:
            return ("+" if x >= 0 else "") + s + "e0"
    return s


def record_xml(r, v, pfx):
    ty = {0: "Float", 1: "Float", 2: "ScaledInteger", 3: "Integer"}[r["k"]]
    attrs = [("type", ty)]
    omit = v == 4
    if r["k"] == 0:
        attrs.append(("precision", "single"))
    elif r["k"] == 1 and not omit:
        attrs.append(("precision", "double"))
    if r["k"] in (0, 1):
        conv = f32_of if r["k"] == 0 else f64_of
        for key, name in (("min", "minimum"), ("max", "maximum")):
            if "some" in r[key]:
                attrs.append((name, num(conv(r[key]["some"]), v)))
    else:
        mn, mx = i64_of(r["min"]["some"]), i64_of(r["max"]["some"])
        if not (omit and mn == -(1 << 63)):
            attrs.append(("minimum", num(mn, v)))
        if not (omit and mx == (1 << 63) - 1):
            attrs.append(("maximum", num(mx, v)))
        if r["k"] == 2:
            sc, of = f64_of(r["scale"]["some"]), f64_of(r["offset"]["some"])
            if not (omit and sc == 1.0):
                attrs.append(("scale", num(sc, v)))
            if not (omit and of == 0.0):
                attrs.append(("offset", num(of, v)))
    if v == 1:
        attrs = attrs[::-1]
    q = "'" if v == 1 else '"'
    a = " ".join(f"{k}={q}{val}{q}" for k, val in attrs)
    ns = r["ns"].get("some")
    name = (ns + ":" if ns else pfx) + r["name"]
    if v == 5:
        return f"<{name} {a}/>"
    return f"<{name} {a}>0</{name}>"


def xml_for(scene, offsets, v):
    """scene: {guid, pcs:[{guid, proto, n}]}; offsets: physical section offsets; v: lexical variant 0..5"""
    pfx = "e57:" if v == 2 else ""
    q = "'" if v == 1 else '"'
    sep = "\n  <!-- c -->\n " if v == 2 else ("" if v == 5 else "\n")

    def el(name, ty, body, extra=""):
        return f"<{pfx}{name} type={q}{ty}{q}{extra}>{body}</{pfx}{name}>"

    def text(s):
        if v in (1, 5):
            return s.replace("&", "&amp;").replace("<", "&lt;").replace(">", "&gt;")
        if v == 3:
            return "".join(f"&#{ord(ch)};" for ch in s)
        if v == 2 and len(s) >= 2:
            # legal lexical form: a comment and a processing instruction inside the element split its text into several nodes
            h = len(s) // 2
            return f"<![CDATA[{s[:h]}]]><!-- c --><?pi x?><![CDATA[{s[h:]}]]>"
        return f"<![CDATA[{s}]]>"
    nsdecl = f" xmlns:e57={q}{E57NS}{q}" if v == 2 else f" xmlns={q}{E57NS}{q}"
    exts = sorted({r["ns"]["some"] for pc in scene["pcs"] for r in pc["proto"] if "some" in r["ns"]})
    nsdecl += "".join(f" xmlns:{e}={q}urn:ext:{e}{q}" for e in exts)
    parts = []
    if v != 5:
        parts.append('<?xml version="1.0" encoding="UTF-8"?>')
    parts.append(f"<{pfx}e57Root type={q}Structure{q}{nsdecl}>")
    parts.append(el("formatName", "String", text("ASTM E57 3D Imaging Data File")))
    parts.append(el("guid", "String", text(scene["guid"])))
    parts.append(el("versionMajor", "Integer", ("<!-- c -->" if v == 2 else "") + num(1, v)))
    parts.append(el("versionMinor", "Integer", "0"))
    d3 = []
    for pc, off in zip(scene["pcs"], offsets):
        proto = sep.join(record_xml(r, v, pfx) for r in pc["proto"])
        pa = [("type", "CompressedVector"), ("fileOffset", str(off)), ("recordCount", str(pc["n"]))]
        if v == 1:
            pa = pa[::-1]
        pattr = " ".join(f"{k}={q}{val}{q}" for k, val in pa)
        points = f"<{pfx}points {pattr}>{sep}" + el("prototype", "Structure", sep + proto + sep) + f"{sep}</{pfx}points>"
        d3.append(el("vectorChild", "Structure", sep + el("guid", "String", text(pc["guid"])) + sep + points + sep))
    parts.append(el("data3D", "Vector", sep + sep.join(d3) + sep, f" allowHeterogeneousChildren={q}1{q}"))
    if v not in (4, 5):
        parts.append(el("images2D", "Vector", "", f" allowHeterogeneousChildren={q}1{q}"))
    parts.append(f"</{pfx}e57Root>")
    return (sep.join(parts) + "\n").encode()


def build_file(cases, v, guid="enc-guid"):
    """cases: list of MC_Encode cases placed one after another (the first at its own lstart, the next ones
    right behind, each section start must equal the lstart it was encoded for). Returns (bytes, scene)."""
    logical = bytearray(48)
    offsets, pcs = [], []
    for c in cases:
        assert len(logical) <= c["lstart"], "sections overlap"
        logical += b"\0" * (c["lstart"] - len(logical))
        offsets.append(log2phys(len(logical)))
        logical += bytes(c["sec"])
        logical += b"\0" * ((4 - len(logical) % 4) % 4)
        pcs.append({"guid": "pc-" + c["name"], "proto": c["proto"], "pts": c["pts"], "n": len(c["pts"])})
    scene = {"guid": guid, "pcs": pcs}
    xml = xml_for(scene, offsets, v)
    xoff = log2phys(len(logical))
    logical += xml
    npages = (len(logical) + 1019) // 1020
    hdr = b"ASTM-E57" + struct.pack("<IIQQQQ", 1, 0, npages * 1024, xoff, len(xml), 1024)
    logical[0:48] = hdr
    return paginate(bytes(logical)), scene
