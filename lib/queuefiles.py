"""Files for the packet sequences that TLC enumerates from QueueSpec's environment (MC_QueueExport): every way a producer
may cut the byte streams of a small point cloud into data packets, with empty, index and ignored packets in between.
The values are a fixed pattern, the streams are packed here (LSB first) -- the TLA+ decoder judges them again from the
bytes of the file --, the section is assembled packet by packet as the exported sequence says."""
import struct

NAMES = ["rowIndex", "columnIndex", "intensity"]
I64MIN, I64MAX = -(1 << 63), (1 << 63) - 1


def limbs(x):
    u = x & ((1 << 64) - 1)
    return [u & 0xFFFF, (u >> 16) & 0xFFFF, (u >> 32) & 0xFFFF, (u >> 48) & 0xFFFF]


def record(i, w):
    if w == 0:
        mn, mx = 5, 5
    elif w == 64:
        mn, mx = I64MIN, I64MAX
    else:
        mn = -3
        mx = mn + (1 << w) - 1
    return {"k": 3, "name": NAMES[i], "ns": {"none": 1}, "min": {"some": limbs(mn)}, "max": {"some": limbs(mx)}, "scale": {"none": 1}, "offset": {"none": 1}}, mn


def pack(values, w):
    acc, nb = 0, 0
    for v in values:
        acc |= (v & ((1 << w) - 1)) << nb if w else 0
        nb += w
    return acc.to_bytes((nb + 7) // 8, "little")


def log2phys(l):
    return l + 4 * (l // 1020)


def case_of(q, idx):
    w, n, packets = q["w"], q["n"], q["packets"]
    recs, mins = zip(*[record(i, wi) for i, wi in enumerate(w)])
    raw = [[((k + 1) * 2654435761 + i * 40503) % (1 << wi) if wi else 0 for k in range(n)] for i, wi in enumerate(w)]
    streams = [pack(raw[i], wi) for i, wi in enumerate(w)]
    pts = [[[3] + limbs(mins[i] + raw[i][k]) for i in range(len(w))] for k in range(n)]
    body, pos = bytearray(), [0] * len(w)
    for p in packets:
        if p["t"] == "data":
            sl = [streams[i][pos[i]:pos[i] + p["sizes"][i]] for i in range(len(w))]
            pos = [pos[i] + p["sizes"][i] for i in range(len(w))]
            b = b"".join(struct.pack("<H", len(s)) for s in sl) + b"".join(sl)
            ln = 6 + len(b); pad = (4 - ln % 4) % 4
            body += bytes([1, 0]) + struct.pack("<HH", ln + pad - 1, len(w)) + b + b"\0" * pad
        elif p["t"] == "index":
            ne = 4095 if idx % 89 == 3 else 1 + idx % 3          # now and then the largest packet the length field can express (65536 bytes)
            body += bytes([0, 0]) + struct.pack("<HH", 16 + 16 * ne - 1, ne) + bytes([idx % 6]) + bytes(9) + bytes((i * 7) % 256 for i in range(16 * ne))
        else:
            ln = 65536 if idx % 97 == 5 else 4 * (1 + idx % 5)
            body += bytes([2, 0]) + struct.pack("<H", ln - 1) + bytes(255 - (i % 200) for i in range(ln - 4))
    assert all(pos[i] == len(streams[i]) for i in range(len(w))), "export does not deliver every stream byte"
    lstart = [48, 52, 1000, 1012, 2032, 988][idx % 6]
    sec = bytes([1]) + bytes(7) + struct.pack("<QQQ", 32 + len(body), log2phys(lstart + 32), 0) + bytes(body)
    name = "q%d:w%s:n%d:%s" % (idx, "-".join(map(str, w)), n, "".join({"data": "D", "index": "I", "ignored": "G"}[p["t"]] + ("(" + ",".join(map(str, p["sizes"])) + ")" if p["t"] == "data" else "") for p in packets))
    return {"name": name, "lstart": lstart, "sec": list(sec), "proto": list(recs), "pts": pts, "layout": packets}


def cost_case(w, per_packet, npackets, last, name, lstart=48):
    """A section for the cost model (QueueCostSpec): `npackets` data packets which each carry per_packet[i] bytes in stream i
    -- also for zero-width records, whose streams are empty in every well-formed file -- followed by one packet with last[i]
    bytes that completes the only point.  The reader's next() has to advance through all of them in ONE call."""
    recs, mins = zip(*[record(i, wi) for i, wi in enumerate(w)])
    body = bytearray()
    def data(sizes, fill):
        sl = [bytes([fill]) * sizes[i] for i in range(len(w))]
        b = b"".join(struct.pack("<H", len(x)) for x in sl) + b"".join(sl)
        ln = 6 + len(b); pad = (4 - ln % 4) % 4
        return bytes([1, 0]) + struct.pack("<HH", ln + pad - 1, len(w)) + b + b"\0" * pad
    for _ in range(npackets):
        body += data(per_packet, 0)
    body += data(last, 0)
    sec = bytes([1]) + bytes(7) + struct.pack("<QQQ", 32 + len(body), log2phys(lstart + 32), 0) + bytes(body)
    pts = [[[3] + limbs(mins[i]) for i in range(len(w))]]
    return {"name": name, "lstart": lstart, "sec": list(sec), "proto": list(recs), "pts": pts, "layout": []}
