"""Shared plumbing of the /verif checks: building the harness against /repo's working
tree, running TLC (model checking and trace validation), evidence, known findings.

Exit codes of a check: 0 property held on everything explored (possibly with KNOWN-FINDING /
DRIFT lines), 1 with a `VIOLATION property=<id> replay=<path>` line, 2 tool error / timeout."""
import json, os, re, shutil, subprocess, sys, time

VERIF = os.path.dirname(os.path.dirname(os.path.abspath(__file__)))
SPEC = os.path.join(VERIF, "spec")
HARNESS = os.path.join(VERIF, "harness")
WORK = os.path.join(VERIF, "work")
EVID = os.path.join(VERIF, "evidence")
KNOWN = os.path.join(VERIF, "known_findings.json")
TLC_WORKERS = int(os.environ.get("VERIF_TLC_WORKERS", "10"))


class ToolError(Exception):
    pass


def log(*a):
    print(*a, flush=True)


def sh(cmd, timeout=None, env=None, cwd=None, check=False):
    e = dict(os.environ)
    e.update({"CARGO_NET_OFFLINE": "true"})
    if env:
        e.update(env)
    try:
        p = subprocess.run(cmd, shell=isinstance(cmd, str), cwd=cwd, env=e, timeout=timeout,
                           stdout=subprocess.PIPE, stderr=subprocess.STDOUT, text=True, errors="replace")
    except subprocess.TimeoutExpired as ex:
        raise ToolError(f"timeout after {timeout}s: {cmd}") from ex
    if check and p.returncode != 0:
        raise ToolError(f"command failed ({p.returncode}): {cmd}\n{p.stdout[-3000:]}")
    return p.returncode, p.stdout


def workdir(pid, clean=True):
    d = os.path.join(WORK, pid)
    if clean and os.path.isdir(d):
        for name in os.listdir(d):
            p = os.path.join(d, name)
            shutil.rmtree(p) if os.path.isdir(p) else os.remove(p)
    os.makedirs(os.path.join(d, "replay"), exist_ok=True)
    return d


_built = {}


def build_harness(hwcrc=False):
    """(Re)build the harness against /repo's CURRENT working tree (path dependency, hooks on)."""
    key = "hw" if hwcrc else "sw"
    if key in _built:
        return _built[key]
    tdir = "target_hw" if hwcrc else "target"
    cmd = f"cargo build --release --offline --target-dir {tdir}" + (" --features hwcrc" if hwcrc else "")
    rc, out = sh(cmd, cwd=HARNESS, timeout=1200)
    if rc != 0:
        raise ToolError("harness build failed (does /repo compile with --cfg e57_verif?)\n" + out[-4000:])
    exe = os.path.join(HARNESS, tdir, "release", "e57h")
    _built[key] = exe
    return exe


def tmpdir(wd):
    """a scratch directory under the check's work directory for tools that would otherwise litter /tmp"""
    d = os.path.join(wd, "tmp"); os.makedirs(d, exist_ok=True)
    return d


def harness(exe, args, timeout=1800, env=None):
    rc, out = sh([exe] + [str(a) for a in args], timeout=timeout, env=env)
    if rc != 0:
        raise ToolError(f"harness {args[0]} failed rc={rc}\n{out[-3000:]}")
    return out


def tlaps(v, wd, module, theorems):
    """discharge every obligation of spec/proofs/<module>.tla with tlapm (a failure is a tool error: the proof is part of the machinery)"""
    pd = os.path.join(wd, "proofs"); os.makedirs(pd, exist_ok=True)
    shutil.copy(os.path.join(SPEC, "proofs", module + ".tla"), pd)
    shutil.rmtree(os.path.join(pd, ".tlacache"), ignore_errors=True)
    rc, out = sh(f"timeout 1200 tlapm --cleanfp --threads 6 {module}.tla", cwd=pd, timeout=1300)
    m = re.search(r"All (\d+) obligations proved", out)
    if not m:
        raise ToolError(f"TLAPS did not discharge {module}:\n" + out[-1500:])
    v.cov.setdefault("tlaps", []).append({"module": f"spec/proofs/{module}.tla", "obligations": int(m.group(1)), "discharged": int(m.group(1)), "theorems": theorems})
    log(f"[{v.pid}] TLAPS: all {m.group(1)} obligations of {module} proved")


def drop_aborted_runs(path, aborted):
    """remove from an NDJSON trace the runs (reset .. next reset) whose `run` index is in `aborted`, and lines cut short by an abort"""
    keep, skipping = [], False
    for line in open(path, errors="replace"):
        try:
            e = json.loads(line)
        except Exception:
            continue
        if e.get("ev") == "reset":
            skipping = e.get("run") in aborted
        if not skipping:
            keep.append(line if line.endswith("\n") else line + "\n")
    open(path, "w").writelines(keep)


def harness_supervised(exe, args, out, total, stall=120):
    """Run a harness command that processes `total` cases, reports the case in progress in <out>.progress and accepts
    --from N. An abort (allocation cap, stack overflow, ...) or a stall is attributed to the case in progress and the run
    resumes behind it. Returns [(case index, kind, stderr tail)]."""
    import time
    start, aborts = 0, []
    progress = out + ".progress"
    if os.path.exists(out):
        os.remove(out)
    while start < total:
        if os.path.exists(progress):
            os.remove(progress)
        errp = out + ".stderr"
        p = subprocess.Popen([exe] + [str(a) for a in args] + ["--from", str(start), "--out", out], stdout=subprocess.DEVNULL, stderr=open(errp, "w"))
        last, last_t, killed = None, time.time(), False
        while p.poll() is None:
            time.sleep(0.2)
            cur = open(progress).read() if os.path.exists(progress) else None
            if cur != last:
                last, last_t = cur, time.time()
            elif time.time() - last_t > stall:
                p.kill(); killed = True
                break
        p.wait()
        cur = open(progress).read() if os.path.exists(progress) else None
        if cur == "done":
            break
        if cur is None:
            raise ToolError(f"harness {args[0]} died before its first case rc={p.returncode}\n" + open(errp, errors="replace").read()[-2000:])
        idx = int(cur)
        err = open(errp, errors="replace").read()
        kind = "timeout" if killed else ("alloc_cap" if "memory allocation of" in err else "abort")
        aborts.append((idx, kind, err[-300:]))
        start = idx + 1
        # the process may have died in the middle of a line: the next one must not continue it
        if os.path.exists(out) and os.path.getsize(out) > 0:
            with open(out, "rb+") as f:
                f.seek(-1, 2)
                if f.read(1) != b"\n":
                    f.write(b"\n")
    return aborts


# ------------------------------------------------------------------------------------------
# TLC
# ------------------------------------------------------------------------------------------

def write_cfg(path, spec="MCSpec", constants=None, invariants=(), properties=(), view=None,
              constraint=None, action_constraint=None, postcondition=None, init=None, nxt=None):
    lines = []
    if init:
        lines += [f"INIT {init}", f"NEXT {nxt}"]
    else:
        lines.append(f"SPECIFICATION {spec}")
    if constants:
        lines.append("CONSTANTS")
        for k, v in constants.items():
            if isinstance(v, bool):
                v = "TRUE" if v else "FALSE"
            lines.append(f"  {k} {v}" if isinstance(v, str) and v.startswith("<-") else f"  {k} = {v}")
    if view:
        lines.append(f"VIEW {view}")
    if constraint:
        lines.append(f"CONSTRAINT {constraint}")
    if action_constraint:
        lines.append(f"ACTION_CONSTRAINT {action_constraint}")
    if invariants:
        lines.append("INVARIANTS " + " ".join(invariants))
    if properties:
        lines.append("PROPERTIES " + " ".join(properties))
    if postcondition:
        lines.append(f"POSTCONDITION {postcondition}")
    lines.append("CHECK_DEADLOCK FALSE")
    with open(path, "w") as f:
        f.write("\n".join(lines) + "\n")


def tlc_mc(module, cfg, outpath, workers=None, timeout=3600, env=None, coverage=False, extra=()):
    """Run TLC model checking; returns dict with counts and the raw output path."""
    meta = outpath + ".meta"
    shutil.rmtree(meta, ignore_errors=True)
    cmd = ["tlc", "-workers", str(workers or TLC_WORKERS), "-metadir", meta, "-cleanup", "-noGenerateSpecTE"]
    if coverage:
        cmd += ["-coverage", "1"]
    cmd += list(extra) + ["-config", cfg, os.path.join(SPEC, module + ".tla")]
    t0 = time.time()
    e = dict(os.environ)
    tmpd = outpath + ".tmp"; os.makedirs(tmpd, exist_ok=True)      # TLC unpacks its standard modules there on every run
    e["JAVA_TOOL_OPTIONS"] = f"-Xss512m -Djava.io.tmpdir={tmpd}"
    if env:
        e.update(env)
    with open(outpath, "w") as f:
        try:
            p = subprocess.run(["timeout", str(timeout)] + cmd, stdout=f, stderr=subprocess.STDOUT, env=e, cwd=os.path.dirname(outpath))
        except Exception as ex:
            raise ToolError(f"tlc failed to start: {ex}")
    shutil.rmtree(meta, ignore_errors=True)
    shutil.rmtree(tmpd, ignore_errors=True)
    res = {"rc": p.returncode, "wall_s": round(time.time() - t0, 1), "out": outpath,
           "generated": 0, "distinct": 0, "depth": 0, "ok": False, "violated": None}
    tail = ""
    with open(outpath, errors="replace") as f:
        for line in f:
            if line.startswith('"EDGE') or line.startswith('"CASE'):
                continue
            tail = (tail + line)[-6000:]
            m = re.match(r"(\d+) states generated, (\d+) distinct states found", line)
            if m:
                res["generated"], res["distinct"] = int(m.group(1)), int(m.group(2))
            m = re.match(r"The depth of the complete state graph search is (\d+)", line)
            if m:
                res["depth"] = int(m.group(1))
            if "Model checking completed. No error has been found" in line:
                res["ok"] = True
            m = re.match(r"Error: Invariant (\S+) is violated", line)
            if m:
                res["violated"] = m.group(1)
            m = re.match(r"Error: Action property (\S+) is violated", line)
            if m:
                res["violated"] = m.group(1)
            if "Temporal properties were violated" in line or re.match(r"Error: Temporal property \S+ was violated", line):
                res["violated"] = "temporal"
    res["tail"] = tail
    if p.returncode == 124:
        raise ToolError(f"TLC timed out after {timeout}s on {module}")
    if not res["ok"] and res["violated"] is None:
        raise ToolError(f"TLC error on {module} (rc={p.returncode}):\n{tail[-3000:]}")
    return res


def extract_lines(tlc_out, prefix, dest):
    """TLC prints PrintT("PREFIX " \\o json) as a quoted, escaped string; unescape into NDJSON."""
    n = 0
    with open(tlc_out, errors="replace") as f, open(dest, "w") as o:
        for line in f:
            if line.startswith('"' + prefix + " "):
                s = json.loads(line.strip())
                o.write(s[len(prefix) + 1:] + "\n")
                n += 1
    return n


def tlc_trace(module, trace, outpath, timeout=1800, heap="8g", focus=(), cont=False):
    """Validate one NDJSON trace against a trace specification.
    Returns dict(accepted, at, ev, tag, events)."""
    cfg = os.path.join(SPEC, module + ".cfg")
    meta = outpath + ".meta"
    shutil.rmtree(meta, ignore_errors=True)
    e = dict(os.environ)
    e["TRACE"] = os.path.abspath(trace)
    tmpd = outpath + ".tmp"; os.makedirs(tmpd, exist_ok=True)
    e["JAVA_TOOL_OPTIONS"] = f"-Xss1g -Xmx{heap} -Dtlc2.tool.queue.IStateQueue=StateDeque -Djava.io.tmpdir={tmpd}"
    for k in list(e):
        if k.startswith("F_C") or k == "F_ALL":
            del e[k]
    for f in focus:
        e["F_" + f] = "1"
    e.pop("F_CONTINUE", None)
    if cont:
        e["F_CONTINUE"] = "1"
    cmd = ["timeout", str(timeout), "tlc", "-workers", "1", "-metadir", meta, "-cleanup", "-noGenerateSpecTE",
           "-config", cfg, os.path.join(SPEC, module + ".tla")]
    t0 = time.time()
    with open(outpath, "w") as f:
        p = subprocess.run(cmd, stdout=f, stderr=subprocess.STDOUT, env=e, cwd=os.path.dirname(outpath))
    shutil.rmtree(meta, ignore_errors=True)
    shutil.rmtree(tmpd, ignore_errors=True)
    out = open(outpath, errors="replace").read()
    res = {"accepted": False, "at": None, "ev": None, "tag": None, "events": None,
           "wall_s": round(time.time() - t0, 1), "out": outpath,
           "nonfocus": sorted(set(re.findall(r'<<"NONFOCUS", \d+, (\{[^}]*\}, "[^"]*")>>', re.sub(r"\s+", " ", out).replace("<< ", "<<").replace(" >>", ">>"))))}
    res["drift"] = sorted(set(re.findall(r'<<"DRIFT", \d+, "([^"]*)">>', re.sub(r"\s+", " ", out).replace("<< ", "<<").replace(" >>", ">>"))))
    if p.returncode == 124:
        raise ToolError(f"TLC timed out validating {trace}")
    res["viol"] = [(int(a), b) for a, b in re.findall(r'<<"VIOL", (\d+), "([^"]*)">>', re.sub(r"\s+", " ", out).replace("<< ", "<<").replace(" >>", ">>"))]
    m = re.search(r'<<"TRACE-ACCEPTED", (\d+)>>', out)
    if m and "Model checking completed. No error has been found" in out:
        res["accepted"] = True
        res["events"] = int(m.group(1))
        return res
    flat = re.sub(r"\s+", " ", out).replace("<< ", "<<").replace(" >>", ">>")
    m = re.search(r'<<"TRACE-REJECTED", (\d+), "([^"]*)", <<(\d+), "([^"]*)">>>>', flat)
    if m:
        res.update(at=int(m.group(1)), ev=m.group(2), tag=m.group(4))
        if int(m.group(3)) != int(m.group(1)):
            res["tag"] = "?:" + m.group(4) + f"@{m.group(3)}"
        return res
    raise ToolError(f"TLC error validating {trace} with {module}:\n{out[-3000:]}")


def cut_run(trace, at, dest):
    """Copy the run (reset .. next reset) that contains event number `at` (1-based) into dest."""
    lines = open(trace).read().splitlines()
    start = 0
    for i in range(min(at, len(lines)) - 1, -1, -1):
        if '"ev":"reset"' in lines[i].replace(" ", ""):
            start = i
            break
    end = len(lines)
    for i in range(start + 1, len(lines)):
        if '"ev":"reset"' in lines[i].replace(" ", ""):
            end = i
            break
    with open(dest, "w") as f:
        f.write("\n".join(lines[start:end]) + "\n")
    return at - start


# ------------------------------------------------------------------------------------------
# verdicts, evidence, known findings
# ------------------------------------------------------------------------------------------

class Verdict:
    def __init__(self, pid, tier, seed, level):
        self.pid, self.tier, self.seed, self.level = pid, tier, seed, level
        self.t0 = time.time()
        self.violations = []      # (signature, replay path, text)
        self.known_hit = []
        self.drift = []
        self.cov = {"samples": []}
        self.assumptions = []
        self.known = [k for k in load_known() if k.get("property") == pid and k.get("status") == "known"]

    def violation(self, signature, replay, text=""):
        for k in self.known:
            if re.fullmatch(k["signature"], signature):
                if k["id"] not in [x["id"] for x in self.known_hit]:
                    self.known_hit.append(k)
                return False
        self.violations.append((signature, replay, text))
        return True

    def add(self, **kw):
        for k, v in kw.items():
            if isinstance(v, int) and isinstance(self.cov.get(k), int):
                self.cov[k] += v
            else:
                self.cov[k] = v

    def sample(self, s):
        if len(self.cov["samples"]) < 6:
            self.cov["samples"].append(s)

    def finish(self):
        wall = round(time.time() - self.t0, 1)
        os.makedirs(EVID, exist_ok=True)
        ev = {"property_id": self.pid, "tier": self.tier, "seed": self.seed, "level": self.level,
              "coverage": self.cov, "assumptions": self.assumptions, "wall_s": wall,
              "violations": len(self.violations)}
        self.cov["known_findings_hit"] = [k["id"] for k in self.known_hit]
        self.cov["drift"] = self.drift
        with open(os.path.join(EVID, self.pid + ".json"), "w") as f:
            json.dump(ev, f, indent=1)
        for k in self.known_hit:
            log(f"KNOWN-FINDING: property={self.pid} {k['id']} {k['what']}")
        for d in self.drift:
            log(f"DRIFT: {d}")
        for sig, replay, text in self.violations:
            log(f"VIOLATION property={self.pid} replay={replay}")
            log(f"  signature: {sig} {text}")
        log(f"[{self.pid}] tier={self.tier} seed={self.seed} wall={wall}s violations={len(self.violations)}")
        return 1 if self.violations else 0


def load_known():
    if not os.path.exists(KNOWN):
        return []
    return json.load(open(KNOWN)).get("findings", [])


def main_wrapper(fn):
    import argparse
    ap = argparse.ArgumentParser()
    ap.add_argument("--tier", default=os.environ.get("VERIF_TIER", "quick"), choices=["quick", "thorough"])
    ap.add_argument("--replay", default=None)
    ap.add_argument("--selftest", action="store_true")
    args = ap.parse_args(sys.argv[2:])
    seed = int(os.environ.get("VERIF_SEED", "1"))
    try:
        rc = fn(args.tier, seed, args)
    except ToolError as ex:
        log("TOOL-ERROR:", ex)
        rc = 2
    sys.exit(rc)
